// C01 - a future is resolved exactly once, by exactly one winner (competing resolvers x waiters x value types)
#include "common_vrt.h"
#include <memory>
#include <vector>

namespace {

enum RKind { R_VAL = 0, R_EXC, R_DROP, R_MOVECALL, R_MOVEDIE, R_ASSIGN, R_START, R_BIND, R_NOP, R_NKINDS };
static const char *rk_names[] = {"val", "exc", "drop", "mvcall", "mvdie", "assign", "start", "bind", "nop"};
enum WKind { W_NONE = 0, W_WAIT, W_CORO, W_HASV, W_COHASV, W_NWK };
static const char *wk_names[] = {"none", "wait", "coro", "hasv", "cohasv"};

// scratch: 0..3 ret of resolver i (1 true, 2 false, 3 claimed-by-move-and-died, 4 move got nothing), 8: waiter kind seen, 9: waiter value
enum { S_RET = 0, S_WK = 8, S_WV = 9, S_WDONE = 10 };

static int g_refs[4] = {100, 101, 102, 103};

template <typename T>
struct Tr;
template <>
struct Tr<int> {
    static constexpr const char *name = "int";
    static long read(int &v) { return v; }
    static bool call(cocls::promise<int> &p, int i) { return p(100 + i); }
    static bool loser_ok(int) { return true; }
};
template <>
struct Tr<Counted> {
    static constexpr const char *name = "counted";
    static long read(Counted &c) {
        if (!c.ok()) vrt_fail("future/torn-value", "payload checksum broken: a=%ld b=%ld", c.a, c.b);
        return c.a;
    }
    static bool call(cocls::promise<Counted> &p, int i) {
        Counted arg(100 + i);
        bool r = p(arg);  // copied into the future only if this call wins
        return r;
    }
};
template <>
struct Tr<MoveOnly> {
    static constexpr const char *name = "moveonly";
    static long read(MoveOnly &m) {
        if (!m.owns) vrt_fail("future/lost-resource", "stored move-only value does not own its resource");
        return m.v;
    }
    static bool call(cocls::promise<MoveOnly> &p, int i) {
        MoveOnly arg(100 + i);
        bool r = p(std::move(arg));
        if (!r && !arg.owns) vrt_fail("future/loser-left-trace", "a losing promise call consumed its move-only argument");
        if (r && arg.owns) vrt_fail("future/winner-did-not-take", "winning call did not move the argument");
        return r;
    }
};
template <>
struct Tr<int &> {
    static constexpr const char *name = "ref";
    static long read(int &v) { return v; }
    static bool call(cocls::promise<int &> &p, int i) { return p(g_refs[i]); }
};
struct VoidTag {};

struct Obs {
    int kind = 0;  // 1 value 2 exception 3 no-value 4 not-ready
    long val = 0;
    bool operator==(const Obs &o) const { return kind == o.kind && val == o.val; }
};

template <typename T>
static Obs observe(cocls::future<T> &f) {
    Obs o;
    try {
        if constexpr (std::is_void_v<T>) {
            f.value();
            o.kind = 1;
        } else {
            auto &v = f.value();
            o.kind = 1;
            o.val = Tr<T>::read(v);
        }
    } catch (const TestError &e) {
        o.kind = 2;
        o.val = e.code;
    } catch (const cocls::await_canceled_exception &) {
        o.kind = 3;
    } catch (const cocls::value_not_ready_exception &) {
        o.kind = 4;
    }
    return o;
}

// the same result read through a const reference to the future (the const overload of value())
template <typename T>
static Obs observe_const(const cocls::future<T> &f) {
    Obs o;
    try {
        if constexpr (std::is_void_v<T>) {
            f.value();
            o.kind = 1;
        } else {
            auto &v = f.value();
            o.kind = 1;
            o.val = Tr<T>::read(const_cast<std::remove_const_t<std::remove_reference_t<decltype(v)>> &>(v));
        }
    } catch (const TestError &e) {
        o.kind = 2;
        o.val = e.code;
    } catch (const cocls::await_canceled_exception &) {
        o.kind = 3;
    } catch (const cocls::value_not_ready_exception &) {
        o.kind = 4;
    }
    return o;
}

template <typename T>
static bool call_value(cocls::promise<T> &p, int i) {
    if constexpr (std::is_void_v<T>)
        return p();
    else
        return Tr<T>::call(p, i);
}

// resolver kind 'start': an async coroutine bound to the shared promise with start(promise). It competes for the claim
// like any other call; when it loses, the coroutine must not even start ("leaves no trace")
template <typename T>
static cocls::async<T> producer(int i, int *ran) {
    ++*ran;
    if constexpr (std::is_void_v<T>)
        co_return;
    else if constexpr (std::is_same_v<T, int &>)
        co_return g_refs[i];
    else
        co_return T(100 + i);
}

template <typename T>
static void resolver(cocls::promise<T> &p, int i, int kind) {
    static const char *labels[] = {"r0", "r1", "r2", "r3"};
    vrt_label(labels[i]);
    int64_t *s = vrt_scratch();
    switch (kind) {
        case R_VAL: s[S_RET + i] = call_value<T>(p, i) ? 1 : 2; break;
        case R_EXC: s[S_RET + i] = p(std::make_exception_ptr(TestError(200 + i))) ? 1 : 2; break;
        case R_DROP: s[S_RET + i] = p(cocls::drop) ? 1 : 2; break;
        case R_MOVECALL: {
            cocls::promise<T> q(std::move(p));
            s[S_RET + i] = call_value<T>(q, i) ? 1 : 2;
            break;
        }
        case R_MOVEDIE: {
            cocls::promise<T> q(std::move(p));
            s[S_RET + i] = q ? 3 : 4;
            break;  // q dies here: resolves to no-value if it holds the claim
        }
        case R_START: {
            int ran = 0;
            bool ok = producer<T>(i, &ran).start(p);
            if (!ok && ran) vrt_fail("future/loser-left-trace", "start(promise) lost the claim (returned false) but the coroutine body ran %d times", ran);
            if (ok && ran != 1) vrt_fail("future/winner-did-not-run", "start(promise) reported success but the coroutine body ran %d times", ran);
            s[S_RET + i] = ok ? 1 : 2;
            break;
        }
        case R_BIND: {
            // bind(payload) takes the promise and fixes the payload now; the caller's variable changes before the bound
            // function is finally called
            if constexpr (std::is_same_v<T, int> || std::is_same_v<T, Counted>) {
                T payload(100 + i);
                auto fn = p.bind(payload);
                payload = T(-5);
                s[S_RET + i] = fn() ? 1 : 2;
            } else {
                cocls::promise<T> q(std::move(p));
                s[S_RET + i] = call_value<T>(q, i) ? 1 : 2;
            }
            break;
        }
        case R_ASSIGN:
            // move-assigning over the live promise drops what it pointed to (resolution to no-value); nothing is reported
            // - and the source, a named promise that lives on, is left empty: it must not take the overwritten target along
            {
                cocls::promise<T> q;
                p = std::move(q);
                if (q) vrt_fail("future/assign-source-armed", "after p = std::move(q) the source q is armed: the target p pointed to was handed to q instead of being dropped");
                s[S_RET + i] = 5;
            }
            break;
        default: break;
    }
}

template <typename T>
static cocls::async<void> coro_waiter(cocls::future<T> &f) {
    int64_t *s = vrt_scratch();
    Obs o;
    try {
        if constexpr (std::is_void_v<T>) {
            co_await f;
            o.kind = 1;
        } else {
            auto &v = co_await f;
            o.kind = 1;
            o.val = Tr<T>::read(v);
        }
    } catch (const TestError &e) {
        o.kind = 2;
        o.val = e.code;
    } catch (const cocls::await_canceled_exception &) {
        o.kind = 3;
    }
    s[S_WK] = o.kind;
    s[S_WV] = o.val;
    s[S_WDONE]++;
}

template <typename T>
static cocls::async<void> cohasv_waiter(cocls::future<T> &f) {
    int64_t *s = vrt_scratch();
    bool hv = co_await f.has_value();
    Obs o = observe(f);
    if (hv != (o.kind != 3)) vrt_fail("future/has_value-mismatch", "co_await has_value()=%d but value() reports kind %d", (int)hv, o.kind);
    s[S_WK] = o.kind;
    s[S_WV] = o.val;
    s[S_WDONE]++;
}

template <typename T>
static void waiter(cocls::future<T> &f, int wk) {
    vrt_label("waiter");
    int64_t *s = vrt_scratch();
    if (wk == W_WAIT) {
        Obs o;
        try {
            if constexpr (std::is_void_v<T>) {
                f.wait();
                o.kind = 1;
            } else {
                auto &v = f.wait();
                o.kind = 1;
                o.val = Tr<T>::read(v);
            }
        } catch (const TestError &e) {
            o.kind = 2;
            o.val = e.code;
        } catch (const cocls::await_canceled_exception &) {
            o.kind = 3;
        }
        s[S_WK] = o.kind;
        s[S_WV] = o.val;
        s[S_WDONE]++;
    } else if (wk == W_CORO) {
        coro_waiter<T>(f).detach();
    } else if (wk == W_COHASV) {
        cohasv_waiter<T>(f).detach();
    } else if (wk == W_HASV) {
        bool hv = f.has_value();  // blocks until resolved
        Obs o = observe(f);
        if (hv != (o.kind != 3)) vrt_fail("future/has_value-mismatch", "has_value()=%d but value() reports kind %d", (int)hv, o.kind);
        s[S_WK] = o.kind;
        s[S_WV] = o.val;
        s[S_WDONE]++;
    }
}

template <typename T>
static void scenario(int n, const int *kinds, int wk) {
    int64_t *s = vrt_scratch();
    auto f = std::make_unique<cocls::future<T>>();
    vstd::thread wt;
    {
        cocls::promise<T> p = f->get_promise();
        vstd::thread th[4];
        if (wk != W_NONE) wt = vstd::thread(waiter<T>, std::ref(*f), wk);
        for (int i = 0; i < n; i++) th[i] = vstd::thread(resolver<T>, std::ref(p), i, kinds[i]);
        for (int i = 0; i < n; i++) th[i].join();
    }
    if (wk != W_NONE) {
        vrt_label("main-join-waiter");
        wt.join();
        vrt_label("main");
    }
    int winners = 0, win = -1;
    for (int i = 0; i < n; i++)
        if (s[S_RET + i] == 1 || s[S_RET + i] == 3) {
            winners++;
            win = i;
        }
    VRT_CHECK(winners <= 1, "future/two-winners", "%d resolutions reported success", winners);
    Obs expect;
    if (winners == 0)
        expect.kind = 3;
    else {
        int k = kinds[win];
        if (k == R_VAL || k == R_MOVECALL || k == R_START || k == R_BIND) {
            expect.kind = 1;
            expect.val = std::is_void_v<T> ? 0 : 100 + win;
        } else if (k == R_EXC) {
            expect.kind = 2;
            expect.val = 200 + win;
        } else
            expect.kind = 3;
    }
    for (int i = 0; i < n; i++)
        if (kinds[i] != R_NOP) VRT_CHECK(s[S_RET + i] != 0, "future/no-report", "resolver %d did not report", i);
    VRT_CHECK(f->ready(), "future/not-resolved", "future not ready after all resolvers finished and the promise was destroyed");
    Obs o1 = observe(*f), o2 = observe(*f);
    VRT_CHECK(o1 == expect, "future/wrong-result", "future holds kind=%d val=%ld, winner payload kind=%d val=%ld (winner %d)", o1.kind, o1.val, expect.kind,
              expect.val, win);
    VRT_CHECK(o1 == o2, "future/result-changed", "two reads differ");
    Obs o3 = observe_const<T>(*f);
    VRT_CHECK(o1 == o3, "future/result-changed", "read through a const reference to the future gives kind=%d val=%ld, the plain read kind=%d val=%ld", o3.kind, o3.val, o1.kind, o1.val);
    bool hv = f->has_value();
    VRT_CHECK(hv == (expect.kind != 3), "future/has_value-mismatch", "has_value()=%d expected kind %d", (int)hv, expect.kind);
    if (wk != W_NONE) {
        VRT_CHECK(s[S_WDONE] == 1, "future/waiter-not-released-once", "waiter released %ld times", (long)s[S_WDONE]);
        VRT_CHECK(s[S_WK] == expect.kind && s[S_WV] == expect.val, "future/waiter-saw-other-result", "waiter saw kind=%ld val=%ld, future holds kind=%d val=%ld",
                  (long)s[S_WK], (long)s[S_WV], expect.kind, expect.val);
    }
    f.reset();
    VRT_CHECK(Counted::live() == 0, "future/value-lifetime", "%ld Counted objects still alive after the future was destroyed", (long)Counted::live());
    VRT_CHECK(MoveOnly::live() == 0, "future/value-lifetime", "%ld move-only resources still alive", (long)MoveOnly::live());
    vrt_outcome("win=%d kind=%d", win, expect.kind);
}

// the winner's payload is built from the call's arguments exactly as the value type's constructor would build it
// ("arguments are the same as for the constructor"): promise<vector<int>>(3, 7) is three sevens, not the list {3, 7}
static void ctorform_scenario(int other) {
    int64_t *s = vrt_scratch();
    {
        using V = std::vector<int>;
        cocls::future<V> f;
        cocls::promise<V> p = f.get_promise();
        vstd::thread t1([&] {
            vrt_label("r0");
            vrt_scratch()[S_RET + 0] = p(3, 7) ? 1 : 2;
        });
        vstd::thread t2([&] {
            vrt_label("r1");
            bool r;
            if (other == 0)
                r = p(V{1, 2});
            else if (other == 1)
                r = p(std::make_exception_ptr(TestError(5)));
            else
                r = p(cocls::drop);
            vrt_scratch()[S_RET + 1] = r ? 1 : 2;
        });
        bool has = f.has_value();  // blocks until resolved
        t1.join();
        t2.join();
        VRT_CHECK((s[S_RET] == 1) + (s[S_RET + 1] == 1) == 1, "future/two-winners", "success reports: %ld %ld", (long)s[S_RET], (long)s[S_RET + 1]);
        if (s[S_RET] == 1) {
            VRT_CHECK(has, "future/wrong-result", "the value call won but the future has no value");
            V &v = f.value();
            VRT_CHECK(v == V(3, 7), "future/wrong-result", "promise<vector<int>>(3, 7) won; the future holds %zu element(s), first %d - not what vector<int>(3, 7) is", v.size(), v.empty() ? -1 : v[0]);
        } else if (other == 0) {
            VRT_CHECK(has && f.value() == (V{1, 2}), "future/wrong-result", "the vector {1,2} won but the future holds something else");
        } else if (other == 1) {
            bool threw = false;
            try {
                (void)f.value();
            } catch (const TestError &e) {
                threw = e.code == 5;
            }
            VRT_CHECK(has && threw, "future/wrong-result", "the exception won: has_value()=%d (true expected: value or exception), value() threw it: %d", (int)has, (int)threw);
        } else
            VRT_CHECK(!has, "future/wrong-result", "a drop won but has_value() is true");
        vrt_outcome("winner=%d", s[S_RET] == 1 ? 0 : 1);
    }
}

template <typename T>
static void reg_type(const char *tname) {
    // all multisets of 2 and 3 resolver kinds (NOP only in the "nobody resolves" rows) x waiter kinds
    for (int n = 1; n <= 3; n++) {
        int k[3] = {0, 0, 0};
        for (k[0] = 0; k[0] < R_NKINDS; k[0]++)
            for (k[1] = (n >= 2 ? k[0] : R_NKINDS - 1); k[1] < R_NKINDS; k[1]++)
                for (k[2] = (n >= 3 ? k[1] : R_NKINDS - 1); k[2] < R_NKINDS; k[2]++) {
                    int nop = 0;
                    for (int i = 0; i < n; i++) nop += k[i] == R_NOP;
                    if (nop && nop != n) continue;  // NOP rows: only "all NOP" (destruction alone resolves)
                    if (nop && n > 1) continue;
                    if (n == 1 && k[0] != R_NOP && k[0] != R_ASSIGN) continue;  // other single resolver rows add nothing
                    for (int wk = 0; wk < W_NWK; wk++) {
                        std::string name = std::string("once_") + tname + "_";
                        for (int i = 0; i < n; i++) name += std::string(i ? "-" : "") + rk_names[k[i]];
                        name += std::string("_") + wk_names[wk];
                        int kk[3] = {k[0], k[1], k[2]};
                        vrt::add(name, [=] { scenario<T>(n, kk, wk); });
                    }
                }
    }
}

VRT_REGISTER(reg_once) {
    reg_type<int>("int");
    reg_type<Counted>("counted");
    reg_type<MoveOnly>("moveonly");
    reg_type<void>("void");
    reg_type<int &>("ref");
    static const char *other_names[] = {"val", "exc", "drop"};
    for (int o = 0; o < 3; o++) vrt::add(std::string("once_ctorform_") + other_names[o], [=] { ctorform_scenario(o); });
}

}  // namespace

int main(int argc, char **argv) { return vrt_main(argc, argv); }
