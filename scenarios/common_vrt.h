// common_vrt.h - shared vocabulary of the vrt harnesses
#pragma once
#include <cocls/future.h>
#include <cocls/async.h>
#include <cstdint>
#include <cstdio>
#include <cstring>
#include <exception>
#include <string>

#include "../engine/vrt/vrt.h"

// Oracle bookkeeping lives in uninstrumented scratch memory (no scheduling points, no happens-before edges).
struct Scratch {
    static int64_t &at(int i) { return vrt_scratch()[i]; }
};
inline int64_t next_seq() { return ++vrt_scratch()[63]; }

// a value whose construction/destruction is counted and whose payload carries a checksum
struct Counted {
    static int64_t &live() { return vrt_scratch()[62]; }
    static int64_t &ctors() { return vrt_scratch()[61]; }
    long a = 0, b = 0;
    Counted() { ++live(); ++ctors(); }
    explicit Counted(long v) : a(v), b(~v) { ++live(); ++ctors(); }
    Counted(const Counted &o) : a(o.a), b(o.b) { ++live(); ++ctors(); }
    Counted(Counted &&o) noexcept : a(o.a), b(o.b) { ++live(); ++ctors(); }
    Counted &operator=(const Counted &o) { a = o.a; b = o.b; return *this; }
    ~Counted() { --live(); }
    bool ok() const { return b == ~a; }
};
struct MoveOnly {
    static int64_t &live() { return vrt_scratch()[60]; }
    long v = -1;
    bool owns = false;
    MoveOnly() = default;
    explicit MoveOnly(long x) : v(x), owns(true) { ++live(); }
    MoveOnly(MoveOnly &&o) noexcept : v(o.v), owns(o.owns) { o.owns = false; }
    MoveOnly &operator=(MoveOnly &&o) noexcept {
        if (owns) --live();
        v = o.v; owns = o.owns; o.owns = false;
        return *this;
    }
    MoveOnly(const MoveOnly &) = delete;
    ~MoveOnly() { if (owns) --live(); }
};
struct TestError : std::exception {
    int code;
    explicit TestError(int c) : code(c) {}
    const char *what() const noexcept override { return "TestError"; }
};
