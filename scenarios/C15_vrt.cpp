// C15 (threaded part) - a listener subscribes on thread B while thread A calls the collector and then drops the last handle.
#include "common_vrt.h"
#include <cocls/signal.h>
#include <memory>
#include <optional>

namespace {
using Sig = cocls::signal<int>;
// scratch: count 0, values 1..6, cancelled 8, finished 9
static cocls::async<void> listener(Sig::emitter em, int id) {
    int64_t *s = vrt_scratch();
    for (;;) {
        try {
            int &v = co_await em;
            int64_t n = s[id * 10]++;
            if (n < 6) s[id * 10 + 1 + n] = v;
        } catch (const cocls::await_canceled_exception &) {
            s[id * 10 + 8]++;
            break;
        }
    }
    s[id * 10 + 9] = 1;
}

static void scenario(int nlisteners, int ncalls, bool keep_signal_handle) {
    int64_t *s = vrt_scratch();
    {
        std::optional<Sig> sig;
        sig.emplace();
        std::optional<Sig::collector> col(sig->get_collector());
        Sig::emitter em = sig->get_emitter();
        if (!keep_signal_handle) sig.reset();
        vstd::thread lt[2];
        for (int i = 0; i < nlisteners; i++)
            lt[i] = vstd::thread([em, i] {
                static const char *labels[] = {"listener0", "listener1"};
                vrt_label(labels[i]);
                listener(em, i).detach();
            });
        vstd::thread ct([&] {
            vrt_label("collector");
            for (int v = 1; v <= ncalls; v++) (*col)(v);
            col.reset();  // last collector handle
        });
        ct.join();
        for (int i = 0; i < nlisteners; i++) lt[i].join();
        sig.reset();  // now certainly disconnected: every listener must have been released
        for (int i = 0; i < nlisteners; i++) {
            vrt_label("main-wait-listener-released");
            while (!s[i * 10 + 9]) vrt_yield();
            vrt_label("main");
            VRT_CHECK(s[i * 10 + 8] == 1, "signal/cancel-count", "listener %d saw %ld cancellations", i, (long)s[i * 10 + 8]);
            int64_t n = s[i * 10];
            VRT_CHECK(n <= ncalls, "signal/duplicate-delivery", "listener %d received %ld values for %d calls", i, (long)n, ncalls);
            // a listener that only re-awaits misses nothing after its first value: the values form a suffix of 1..ncalls
            for (int k = 0; k < n; k++) {
                long v = s[i * 10 + 1 + k];
                long want = ncalls - n + 1 + k;
                VRT_CHECK(v == want, "signal/missed-or-duplicated-value", "listener %d received %ld as its value #%d of %ld; a re-awaiting listener must see the contiguous suffix ending at %d", i, v, k,
                          (long)n, ncalls);
            }
        }
        vrt_outcome("n0=%ld n1=%ld", (long)s[0], (long)s[10]);
    }
}

// hook_up(): the coroutine is subscribed and the registration function handed the collector in one step, so a signal
// generator that emits right away - here: a thread started (and joined) by the registration function itself - already
// reaches the listener; later calls come from a collector thread.
static cocls::async<void> hook_listener(std::optional<Sig::collector> &keep, bool emit_in_registration) {
    int64_t *s = vrt_scratch();
    auto e = Sig::hook_up([&keep, emit_in_registration](Sig::collector c) {
        if (emit_in_registration) {
            vstd::thread gen([c] {
                vrt_label("generator");
                c(1);
            });
            gen.join();
        }
        keep.emplace(std::move(c));
    });
    for (;;) {
        try {
            int &v = co_await e;
            int64_t n = s[0]++;
            if (n < 6) s[1 + n] = v;
        } catch (const cocls::await_canceled_exception &) {
            s[8]++;
            break;
        }
    }
    s[9] = 1;
}
static void hook_scenario(bool emit_in_registration, int ncalls) {
    int64_t *s = vrt_scratch();
    {
        std::optional<Sig::collector> keep;
        vstd::thread lt([&] {
            vrt_label("listener0");
            hook_listener(keep, emit_in_registration).detach();
        });
        lt.join();
        VRT_CHECK(keep.has_value(), "signal/hook_up-not-registered", "hook_up() did not hand a collector to the registration function on the first co_await");
        vstd::thread ct([&] {
            vrt_label("collector");
            for (int v = 2; v < 2 + ncalls; v++) (*keep)(v);
            keep.reset();
        });
        ct.join();
        vrt_label("main-wait-listener-released");
        while (!s[9]) vrt_yield();
        vrt_label("main");
        VRT_CHECK(s[8] == 1, "signal/cancel-count", "hooked listener saw %ld cancellations", (long)s[8]);
        int64_t want_n = (emit_in_registration ? 1 : 0) + ncalls;
        VRT_CHECK(s[0] == want_n, s[0] < want_n ? "signal/listener-missed-value" : "signal/duplicate-delivery",
                  "hooked listener received %ld values, %ld were emitted while it was subscribed (the first of them from inside the registration function: %d)", (long)s[0],
                  (long)want_n, (int)emit_in_registration);
        for (int k = 0; k < s[0] && k < 6; k++) {
            long want = (emit_in_registration ? 1 : 2) + k;
            VRT_CHECK(s[1 + k] == want, "signal/listener-wrong-value", "hooked listener received %ld as value #%d, expected %ld", (long)s[1 + k], k, want);
        }
        vrt_outcome("n=%ld", (long)s[0]);
    }
}

VRT_REGISTER(reg_signal) {
    for (int emit = 0; emit < 2; emit++)
        for (int nc = 0; nc <= 2; nc++) vrt::add(std::string("sig_hookup_") + (emit ? "emit" : "plain") + "_calls" + std::to_string(nc), [=] { hook_scenario(emit != 0, nc); });

    for (int nl = 1; nl <= 2; nl++)
        for (int nc = 0; nc <= 2; nc++)
            for (int keep = 0; keep < 2; keep++) {
                std::string name = "sig_l" + std::to_string(nl) + "_calls" + std::to_string(nc) + (keep ? "_keepsignal" : "");
                vrt::add(name, [=] { scenario(nl, nc, keep != 0); });
            }
}
}  // namespace
int main(int argc, char **argv) { return vrt_main(argc, argv); }
