// C13 (sequential part) - generator: the consumer sees exactly the yielded sequence in every access style.
// Body scripts over {yield, await ready future, await pending future, throw} x consumer access-style sequences,
// with and without argument, with early destruction at every yield. Awaits that are pending are completed by the
// consumer between accesses (asynchronous styles); blocking styles against pending awaits are in the vrt part.
#include <cocls/future.h>
#include <cocls/async.h>
#include <cocls/generator.h>

#include <memory>
#include <sstream>

#include "../engine/seqx/seqx.h"
#include "common_seq.h"

namespace {

struct TestError : std::exception {};
static long g_guard_live;
struct Guard {
    Guard() { ++g_guard_live; }
    ~Guard() { --g_guard_live; }
    Guard(const Guard &) = delete;
};

enum BS { Y = 0, AR, AP, THROW, NBS };
static const char *bs_names[] = {"yield", "await-ready", "await-pending", "throw"};
enum CS { NEXT_VALUE = 0, CO_NEXT, CALL_WAIT, CALL_HASV, ITER_ALL, DESTROY, NCS };
static const char *cs_names[] = {"next/value", "co_await-next", "call+wait", "call+co_await-has_value", "range-for", "destroy"};

struct Ctx {
    std::vector<int> script;
    cocls::future<int> pend[3];
    cocls::promise<int> pend_p[3];
    int npend = 0, next_pend = 0, next_resolve = 0;
    int nexty = 1;
    std::vector<int> args_seen;  // argument received at each resumption (generator with argument)
    bool late_arg = false;       // the body performs its first (awaiting) step before it reads the first argument
    int body_runs = 0;
};

static cocls::generator<int> body(Ctx &c) {
    Guard g;
    c.body_runs++;
    for (int st : c.script) {
        switch (st) {
            case Y: co_yield c.nexty++; break;
            case AR: {
                cocls::future<int> r = cocls::future<int>::set_value(1);
                co_await r;
                break;
            }
            case AP: co_await c.pend[c.next_pend++]; break;
            case THROW: throw TestError();
        }
    }
}
static cocls::generator<int, int> body_arg(Ctx &c) {
    Guard g;
    c.body_runs++;
    size_t first = 0;
    if (c.late_arg) {
        // the body awaits something before it looks at the argument of the call that started it
        first = 1;
        if (c.script[0] == AR) {
            cocls::future<int> r = cocls::future<int>::set_value(1);
            co_await r;
        } else
            co_await c.pend[c.next_pend++];
    }
    int a = co_yield nullptr;  // argument of the call that started the generator
    c.args_seen.push_back(a);
    for (size_t si = first; si < c.script.size(); si++) {
        int st = c.script[si];
        switch (st) {
            case Y:
                a = co_yield c.nexty++;
                c.args_seen.push_back(a);
                break;
            case AR: {
                cocls::future<int> r = cocls::future<int>::set_value(1);
                co_await r;
                break;
            }
            case AP: co_await c.pend[c.next_pend++]; break;
            case THROW: throw TestError();
        }
    }
}

struct Obs {
    int kind = 0;  // 1 value, 2 end, 3 TestError, 4 no_more_values_exception, 9 other
    int val = 0;
    bool done = false;
};

template <typename G>
static cocls::async<void> access_co(G &gen, int style, int arg, Obs &o) {
    constexpr bool has_arg = !G::arg_is_void;
    try {
        if (style == CO_NEXT) {
            bool b;
            if constexpr (has_arg)
                b = co_await gen.next(arg);
            else
                b = co_await gen.next();
            if (b) {
                o.val = gen.value();
                o.kind = 1;
            } else
                o.kind = 2;
        } else {
            cocls::future<int> f;
            if constexpr (has_arg)
                f << [&] { return gen(arg); };
            else
                f << [&] { return gen(); };
            bool hv = co_await f.has_value();
            if (hv) {
                o.val = *f;
                o.kind = 1;
            } else
                o.kind = 2;
        }
    } catch (const TestError &) {
        o.kind = 3;
    } catch (const cocls::no_more_values_exception &) {
        o.kind = 4;
    } catch (...) {
        o.kind = 9;
    }
    o.done = true;
}

static int g_next_unstable;  // the object returned by next() answered differently when asked a second time
static int g_reread_mismatch = 0;
static int g_value_after_end = 0;
template <typename G>
static Obs access_sync(G &gen, int style, int arg) {
    constexpr bool has_arg = !G::arg_is_void;
    Obs o;
    try {
        if (style == NEXT_VALUE) {
            bool b;
            // the result of next() is kept and asked twice (if (!n) break; ... if (n) use(value())): one step of the generator
            if constexpr (has_arg) {
                auto n = gen.next(arg);
                b = n;
                bool again = n;
                if (again != b) g_next_unstable++;
            } else {
                auto n = gen.next();
                b = n;
                bool again = n;
                if (again != b) g_next_unstable++;
            }
            if (b) {
                o.val = gen.value();
                o.kind = 1;
            } else {
                o.kind = 2;
                // the sequence has ended: there is no current item any more (the last one lived in the finished body)
                try {
                    (void)gen.value();
                    g_value_after_end++;
                } catch (...) {
                }
            }
        } else {  // CALL_WAIT
            if constexpr (has_arg) {
                cocls::future<int> f = gen(arg);
                o.val = f.wait();
            } else {
                cocls::future<int> f = gen();
                o.val = f.wait();
            }
            o.kind = 1;
        }
    } catch (const TestError &) {
        o.kind = 3;
    } catch (const cocls::await_canceled_exception &) {
        o.kind = 2;
    } catch (const cocls::no_more_values_exception &) {
        o.kind = 4;
    } catch (...) {
        o.kind = 9;
    }
    if (o.kind == 3 && style == CALL_WAIT) {
        // the call delivered the body's exception through its future; the generator itself still stands at that position:
        // reading it directly reports the same exception, not "no value yet"
        try {
            (void)gen.value();
            g_reread_mismatch++;
        } catch (const TestError &) {
        } catch (...) {
            g_reread_mismatch++;
        }
    }
    o.done = true;
    return o;
}

// with_arg: 0 = generator without argument, 1 = with argument, 2 = with argument that the body reads only after its first await
static std::string describe(int with_arg, const std::vector<int> &bs, const std::vector<int> &cs) {
    std::ostringstream o;
    o << "arg=" << with_arg << ";body=";
    for (size_t i = 0; i < bs.size(); i++) o << (i ? "," : "") << bs_names[bs[i]];
    o << ";consumer=";
    for (size_t i = 0; i < cs.size(); i++) o << (i ? "," : "") << cs_names[cs[i]];
    return o.str();
}

template <typename G>
static void run_case_t(seqx::Runner &R, int with_arg, const std::vector<int> &bs, const std::vector<int> &cs) {
    R.begin(describe(with_arg, bs, cs));
    int64_t base = seqx::live_allocs();
    g_guard_live = 0;
    {
        Ctx c;
        c.script = bs;
        c.late_arg = with_arg == 2;
        for (int st : bs)
            if (st == AP) {
                c.pend_p[c.npend] = c.pend[c.npend].get_promise();
                c.npend++;
            }
        // expected observation sequence
        std::vector<Obs> expect;
        {
            int v = 1;
            bool thrown = false;
            for (int st : bs) {
                if (st == Y) expect.push_back(Obs{1, v++, true});
                if (st == THROW) {
                    expect.push_back(Obs{3, 0, true});
                    thrown = true;
                    break;
                }
            }
            if (!thrown) expect.push_back(Obs{2, 0, true});
        }
        std::unique_ptr<G> gen;
        if constexpr (G::arg_is_void)
            gen.reset(new G(body(c)));
        else
            gen.reset(new G(body_arg(c)));
        size_t pos = 0;  // index into expect
        std::vector<int> args_passed;
        bool ended = false;
        auto judge = [&](const Obs &o, const char *style) {
            if (ended) return;
            if (pos >= expect.size()) {
                // only after an exception: the following access must indicate the end (false / no value / no_more_values)
                if (!(o.kind == 2 || o.kind == 4)) R.fail("gen/access-after-exception", "%s after the exception reported kind %d instead of end-of-sequence", style, o.kind);
                ended = true;
                return;
            }
            const Obs &e = expect[pos];
            bool ok = o.kind == e.kind && (e.kind != 1 || o.val == e.val);
            if (e.kind == 2 && o.kind == 4) ok = true;  // end reported by exception from a call on a finished generator
            if (!ok) {
                R.fail(o.kind == 1 && e.kind == 1 ? "gen/wrong-value" : "gen/wrong-position",
                       "%s: access #%zu observed kind=%d val=%d, body script yields kind=%d val=%d there (1 value, 2 end, 3 exception, 4 no_more_values)", style, pos, o.kind,
                       o.val, e.kind, e.val);
                ended = true;
                return;
            }
            pos++;
            if (e.kind == 2) ended = true;
        };
        bool destroyed = false;
        for (size_t i = 0; i < cs.size() && !ended && !R.case_fail; i++) {
            int style = cs[i];
            R.step();
            int arg = 100 + (int)i;
            if (style == DESTROY) {
                gen.reset();
                destroyed = true;
                break;
            }
            if (style == ITER_ALL) {
                if constexpr (G::arg_is_void) {
                    try {
                        if (bs.size() & 1) {
                            // the same walk written with the postfix increment: `it++` hands out the item the iterator stood on
                            auto it = gen->begin();
                            auto e = gen->end();
                            while (it != e) {
                                auto item = it++;
                                judge(Obs{1, item._v, true}, "iterator, postfix increment");
                            }
                        } else
                            for (int &v : *gen) judge(Obs{1, v, true}, "range-for");
                        judge(Obs{2, 0, true}, "range-for end");
                    } catch (const TestError &) {
                        judge(Obs{3, 0, true}, "range-for");
                    } catch (const cocls::no_more_values_exception &) {
                        judge(Obs{4, 0, true}, "range-for");
                    }
                }
                continue;
            }
            args_passed.push_back(arg);
            if (style == NEXT_VALUE || style == CALL_WAIT) {
                g_next_unstable = 0;
                g_reread_mismatch = 0;
                g_value_after_end = 0;
                judge(access_sync(*gen, style, arg), cs_names[style]);
                if (g_value_after_end) R.fail("gen/value-after-end", "next() reported the end of the sequence, yet value() still hands out an item");
                if (g_reread_mismatch) R.fail("gen/exception-lost-on-reread", "a call delivered the body's exception; value() at that position did not report the same exception");
                if (g_next_unstable) R.fail("gen/next-result-unstable", "the object returned by next() converted to bool twice gave two different answers (the generator was stepped again)");
            } else {
                Obs o;
                access_co(*gen, style, arg, o).detach();
                // the body may be parked on pending awaits: the consumer side completes them one by one
                for (int guard = 0; !o.done && guard < 4; guard++) {
                    if (c.next_resolve >= c.npend) break;
                    c.pend_p[c.next_resolve++](5);
                }
                if (!o.done) {
                    R.fail("gen/async-access-never-completed", "%s did not complete after all awaited operations were completed", cs_names[style]);
                    break;
                }
                judge(o, cs_names[style]);
            }
        }
        if constexpr (!G::arg_is_void) {
            // the argument seen after the k-th resumption is the one passed with the k-th call
            for (size_t k = 0; k < c.args_seen.size() && k < args_passed.size(); k++)
                if (c.args_seen[k] != args_passed[k]) {
                    R.fail("gen/wrong-argument", "resumption #%zu received argument %d, the resuming call passed %d", k, c.args_seen[k], args_passed[k]);
                    break;
                }
            if (c.args_seen.size() > args_passed.size()) R.fail("gen/wrong-argument", "body resumed %zu times for %zu calls", c.args_seen.size(), args_passed.size());
        }
        // pending futures must be resolved before they die; a generator parked on one cannot be destroyed
        bool parked_on_await = c.next_pend > c.next_resolve;
        for (int k = c.next_resolve; k < c.npend; k++) c.pend_p[k](5);
        (void)parked_on_await;
        (void)destroyed;
        gen.reset();
        if (c.body_runs > 1) R.fail("gen/body-restarted", "generator body started %d times", c.body_runs);
        R.outcome(seqx::mix((uint64_t)pos, (uint64_t)expect.size()));
        R.state(seqx::mix(seqx::hash_str(describe(with_arg, bs, {})), pos));
    }
    if (g_guard_live != 0) R.fail("gen/locals-destroyed-once", "%ld body locals alive after the generator was destroyed (must be exactly once)", g_guard_live);
    if (!R.case_fail && seqx::live_allocs() != base) R.fail("gen/allocation-balance", "%ld allocations not released", (long)(seqx::live_allocs() - base));
    R.end(true);
}

static void run_case(seqx::Runner &R, int with_arg, const std::vector<int> &bs, const std::vector<int> &cs) {
    if (with_arg)
        run_case_t<cocls::generator<int, int>>(R, with_arg, bs, cs);
    else
        run_case_t<cocls::generator<int>>(R, with_arg, bs, cs);
}

static void enum_consumer(seqx::Runner &R, int with_arg, const std::vector<int> &bs, bool has_pending, int maxc, std::vector<int> &cs) {
    if (R.stop()) return;
    if (!cs.empty() && (cs.back() == DESTROY || (int)cs.size() == maxc)) {
        if (R.next_case()) run_case(R, with_arg, bs, cs);
        return;
    }
    for (int s = 0; s < NCS; s++) {
        if (has_pending && (s == NEXT_VALUE || s == CALL_WAIT || s == ITER_ALL)) continue;  // would block the only thread: vrt part
        if (with_arg && s == ITER_ALL) continue;                                             // iterators pass no argument
        if (s == DESTROY && cs.empty()) continue;
        cs.push_back(s);
        enum_consumer(R, with_arg, bs, has_pending, maxc, cs);
        cs.pop_back();
    }
}
static void enum_body(seqx::Runner &R, int maxb, int maxc, std::vector<int> &bs) {
    if (R.stop()) return;
    bool has_pending = false;
    for (int s : bs) has_pending |= s == AP;
    for (int with_arg = 0; with_arg < 3; with_arg++) {
        if (with_arg == 2 && (bs.empty() || (bs[0] != AP && bs[0] != AR))) continue;
        std::vector<int> cs;
        enum_consumer(R, with_arg, bs, has_pending, maxc, cs);
    }
    if ((int)bs.size() == maxb) return;
    if (!bs.empty() && bs.back() == THROW) return;
    for (int s = 0; s < NBS; s++) {
        int np = 0;
        for (int x : bs) np += x == AP;
        if (s == AP && np >= 3) continue;
        bs.push_back(s);
        enum_body(R, maxb, maxc, bs);
        bs.pop_back();
    }
}

// ---------------------------------------------------------------------------------------------- accumulating body, item with a visible move
// the body keeps using the object it yields (acc = acc*10 + i; co_yield acc): whatever style fetches an item, the body's own
// object stays intact, and after the end co_await next() answers false like next() does
struct AccItem {
    int v = 0, chk = ~0;
    AccItem() = default;
    AccItem(const AccItem &o) : v(o.get()), chk(~v) {}
    AccItem(AccItem &&o) noexcept : v(o.get()), chk(~v) { o.poison(); }
    AccItem &operator=(const AccItem &o) {
        v = o.get();
        chk = ~v;
        return *this;
    }
    AccItem &operator=(AccItem &&o) noexcept {
        v = o.get();
        chk = ~v;
        o.poison();
        return *this;
    }
    void add(int i) {
        v = get() * 10 + i;
        chk = ~v;
    }
    void poison() {
        v = -7777;
        chk = 0;
    }
    int get() const { return chk == ~v ? v : -7777; }
};
static cocls::generator<AccItem> acc_body(int n) {
    AccItem acc;
    for (int i = 1; i <= n; i++) {
        acc.add(i);
        co_yield acc;
    }
}
enum AS { AS_NEXT = 0, AS_CALL, AS_CONEXT, AS_COCALL, NAS };
static const char *as_names[] = {"next/value", "call+wait", "co_await-next", "co_await-call"};
static cocls::async<void> acc_co(cocls::generator<AccItem> &g, int style, int &kind, int &val) {
    try {
        if (style == AS_CONEXT) {
            bool more = co_await g.next();
            if (more) {
                kind = 1;
                val = g.value().get();
            } else
                kind = 2;
        } else {
            cocls::future<AccItem> f = g();
            bool hv = co_await f.has_value();
            if (hv) {
                kind = 1;
                val = f.value().get();
            } else
                kind = 2;
        }
    } catch (const cocls::no_more_values_exception &) {
        kind = 4;
    } catch (...) {
        kind = 9;
    }
}
static void run_acc(seqx::Runner &R, int n, const std::vector<int> &styles) {
    std::ostringstream d;
    d << "accumulating;n=" << n << ";styles=";
    for (size_t i = 0; i < styles.size(); i++) d << (i ? "," : "") << styles[i];
    R.begin(d.str());
    int64_t base = seqx::live_allocs();
    {
        auto gen = std::make_unique<cocls::generator<AccItem>>(acc_body(n));
        int expect = 0;
        for (size_t i = 0; i < styles.size() && !R.case_fail; i++) {
            int kind = 0, val = 0;
            R.step();
            try {
                if (styles[i] == AS_NEXT) {
                    if (gen->next()) {
                        kind = 1;
                        val = gen->value().get();
                    } else
                        kind = 2;
                } else if (styles[i] == AS_CALL) {
                    cocls::future<AccItem> f = (*gen)();
                    if (f.has_value()) {
                        kind = 1;
                        val = f.value().get();
                    } else
                        kind = 2;
                } else
                    acc_co(*gen, styles[i], kind, val).detach();
            } catch (const cocls::no_more_values_exception &) {
                kind = 4;
            } catch (...) {
                kind = 9;
            }
            bool want_value = (int)i < n;
            if (want_value) {
                expect = expect * 10 + (int)i + 1;
                if (kind != 1 || val != expect)
                    R.fail(kind == 1 ? "gen/wrong-value" : "gen/wrong-position", "accumulating body, access #%zu (%s): observed kind=%d val=%d, the body yields %d there", i, as_names[styles[i]], kind, val, expect);
            } else if ((int)i == n) {
                if (kind != 2) R.fail("gen/wrong-position", "accumulating body, access #%zu (%s): observed kind=%d val=%d, the sequence ends there", i, as_names[styles[i]], kind, val);
            } else if (kind != 2 && kind != 4)  // asking again after the end: another end indication, or no_more_values
                R.fail("gen/wrong-position", "accumulating body, access #%zu (%s) after the end: observed kind=%d val=%d", i, as_names[styles[i]], kind, val);
        }
        if (!R.case_fail && (int)styles.size() > n) {
            // the end has been seen: the two flavours of next() must keep telling the same story (no hand-written expectation)
            int ks = 0, kc = 0, dummy = 0;
            try {
                ks = gen->next() ? 1 : 2;
            } catch (const cocls::no_more_values_exception &) {
                ks = 4;
            } catch (...) {
                ks = 9;
            }
            acc_co(*gen, AS_CONEXT, kc, dummy).detach();
            if (ks != kc) R.fail("gen/styles-disagree-after-end", "after the end next() answers %d but co_await next() answers %d (1 value, 2 end, 4 no_more_values_exception)", ks, kc);
        }
        R.outcome(seqx::hash_str(d.str()));
        R.state(seqx::hash_str(d.str()));
    }
    if (!R.case_fail && seqx::live_allocs() != base) R.fail("gen/allocation-balance", "%ld allocations not released", (long)(seqx::live_allocs() - base));
    R.end(true);
}
static void enum_acc(seqx::Runner &R, int n, int len, std::vector<int> &st) {
    if (R.stop()) return;
    if ((int)st.size() == len) {
        if (R.next_case()) run_acc(R, n, st);
        return;
    }
    for (int s = 0; s < NAS; s++) {
        st.push_back(s);
        enum_acc(R, n, len, st);
        st.pop_back();
    }
}

}  // namespace

void seqx_run(seqx::Runner &R, const std::string &tier) {
    seq_warmup();
    for (int n = 0; n <= 2; n++) {
        std::vector<int> st;
        enum_acc(R, n, n + 2, st);  // every style sequence up to one access past the end
    }
    std::vector<int> bs;
    if (tier == "quick")
        enum_body(R, 3, 4, bs);
    else
        enum_body(R, 4, 5, bs);
}

void seqx_replay(seqx::Runner &R, const std::string &c) {
    seq_warmup();
    if (c.rfind("accumulating;", 0) == 0) {
        int n = atoi(c.c_str() + c.find("n=") + 2);
        std::vector<int> st;
        std::stringstream ss(c.substr(c.find("styles=") + 7));
        std::string tok;
        while (std::getline(ss, tok, ',')) st.push_back(atoi(tok.c_str()));
        R.next_case();
        run_acc(R, n, st);
        return;
    }
    int with_arg = c.find("arg=2") != std::string::npos ? 2 : c.find("arg=1") != std::string::npos ? 1 : 0;
    auto parse = [&](const std::string &key, const char *const *names, int n) {
        std::vector<int> out;
        size_t p = c.find(key);
        size_t e = c.find(';', p);
        std::string body = c.substr(p + key.size(), (e == std::string::npos ? c.size() : e) - p - key.size());
        std::stringstream ss(body);
        std::string tok;
        while (std::getline(ss, tok, ','))
            for (int i = 0; i < n; i++)
                if (tok == names[i]) out.push_back(i);
        return out;
    };
    auto bs = parse("body=", bs_names, NBS);
    auto cs = parse("consumer=", cs_names, NCS);
    R.next_case();
    run_case(R, with_arg, bs, cs);
}

SEQX_MAIN()
