// C19 (sequential part) - coroutine storage policies: every frame gets exclusive, sufficiently large, correctly freed memory.
// VERIF_FLAGS: -fno-sanitize=alignment
// (promise_extra_storage puts the extra object right behind the frame without regard to its alignment; C19 does not speak
// about alignment, and the over-aligned extra type below would otherwise stop every run at that point)
// Per policy: every history over {create coroutine of frame-size class S/M/L, finish live coroutine i} within the
// policy's documented discipline. A spy derived from the policy records alloc(sz)->ptr / dealloc(ptr,sz).
#include <cocls/future.h>
#include <cocls/async.h>
#include <cocls/coro_storage.h>
#include <cocls/alloca_storage.h>
#include <cocls/with_allocator.h>

#include <cstring>
#include <algorithm>
#include <memory>
#include <sstream>

#include "../engine/seqx/seqx.h"
#include "common_seq.h"

namespace {

struct AllocRec {
    char *p;
    size_t sz;
    bool live;
};
static std::vector<AllocRec> g_log;
static seqx::Runner *g_R;
static int g_spy_allocs, g_spy_deallocs;

static void spy_alloc(void *p, size_t sz) {
    seqx::NoCount nc;
    g_spy_allocs++;
    char *c = static_cast<char *>(p);
    if (!p) {
        g_R->fail("storage/null-block", "alloc(%zu) returned nullptr", sz);
        return;
    }
    for (auto &r : g_log)
        if (r.live && c < r.p + r.sz && r.p < c + sz) {
            g_R->fail("storage/overlapping-frames", "alloc(%zu) returned [%p,+%zu) which overlaps the live frame [%p,+%zu)", sz, p, sz, (void *)r.p, r.sz);
            break;
        }
    g_log.push_back({c, sz, true});
}
static void spy_dealloc(void *p, size_t sz) {
    seqx::NoCount nc;
    g_spy_deallocs++;
    for (auto &r : g_log)
        if (r.live && r.p == p) {
            if (r.sz != sz) g_R->fail("storage/dealloc-size", "dealloc(%p,%zu) for a block allocated with size %zu", p, sz, r.sz);
            r.live = false;
            return;
        }
    g_R->fail("storage/dealloc-unknown", "dealloc(%p,%zu) of a block that is not live (double free?)", p, sz);
}

template <typename P>
struct Spy : P {
    using P::P;
    void *alloc(std::size_t sz) {
        void *p = P::alloc(sz);
        spy_alloc(p, sz);
        return p;
    }
    static void dealloc(void *p, std::size_t sz) {
        spy_dealloc(p, sz);
        P::dealloc(p, sz);
    }
};

static int g_extra_ctor, g_extra_dtor;
// live-address registry: an extra object must be destroyed at the address where it was constructed
static void *g_extra_live[16];
static int g_extra_wrong_dtor;
static void extra_born(void *p) {
    for (auto &x : g_extra_live)
        if (!x) {
            x = p;
            return;
        }
}
static void extra_died(void *p) {
    for (auto &x : g_extra_live)
        if (x == p) {
            x = nullptr;
            return;
        }
    g_extra_wrong_dtor++;
}
struct Extra {
    // pointer-sized: policies that keep a trailer behind the frame store a pointer at frame+size, and an extra object
    // whose size is not a multiple of the pointer size would make that store misaligned (alignment is not part of C19)
    long value;
    Extra() : value(77) { g_extra_ctor++; extra_born(this); }
    Extra(const Extra &o) : value(o.value) { g_extra_ctor++; extra_born(this); }
    Extra(Extra &&o) noexcept : value(o.value) { g_extra_ctor++; extra_born(this); }
    ~Extra() { g_extra_dtor++; extra_died(this); }
};

// over-aligned extra object (alignof 16, like long double or __int128 members would give)
struct alignas(16) Extra16 {
    long value;
    long pad = 0;
    Extra16() : value(77) { g_extra_ctor++; extra_born(this); }
    Extra16(const Extra16 &o) : value(o.value) { g_extra_ctor++; extra_born(this); }
    Extra16(Extra16 &&o) noexcept : value(o.value) { g_extra_ctor++; extra_born(this); }
    ~Extra16() { g_extra_dtor++; extra_died(this); }
};
struct Pod24 {
    char bytes[24];
};

struct Slot {
    cocls::future<void> gate;
    cocls::promise<void> gate_p;
    bool started = false, done = false, canary_ok = true;
    int cls = 0;
};

template <int N>
static void fill(char (&b)[N], int tag) {
    memset(b, tag, N);
}
template <int N>
static bool check(const char (&b)[N], int tag) {
    for (int i = 0; i < N; i++)
        if (b[i] != (char)tag) return false;
    return true;
}

template <typename St, int N>
static cocls::with_allocator<St, cocls::async<void>> frame_coro(St &, Slot *slot, int tag) {
    char buf[N];
    fill(buf, tag);
    slot->started = true;
    co_await slot->gate;
    slot->canary_ok = check(buf, tag);  // the frame memory was exclusively ours while we were suspended
    slot->done = true;
}
// the same body as a non-static member function: the coroutine machinery then passes the object first, and with_allocator's
// operator new has an overload of its own for that shape (This&, Allocator&, ...)
struct MemberHost {
    int pad = 0;
    template <typename St, int N>
    cocls::with_allocator<St, cocls::async<void>> frame(St &, Slot *slot, int tag) {
        char buf[N];
        fill(buf, tag);
        slot->started = true;
        co_await slot->gate;
        slot->canary_ok = check(buf, tag);
        slot->done = true;
    }
};
static MemberHost g_member_host;
template <typename St>
static void start_member_coro(St &st, Slot *slot, int cls, int tag) {
    if (cls == 0)
        g_member_host.frame<St, 204>(st, slot, tag).detach();
    else if (cls == 1)
        g_member_host.frame<St, 268>(st, slot, tag).detach();
    else
        g_member_host.frame<St, 308>(st, slot, tag).detach();
}
template <typename St>
static void start_coro(St &st, Slot *slot, int cls, int tag) {
    if (cls == 0)
        frame_coro<St, 200>(st, slot, tag).detach();  // the three size classes lie within a factor of 1.5: a storage that grows
    else if (cls == 1)                                // geometrically must still give every frame a block of at least its size
        frame_coro<St, 260>(st, slot, tag).detach();
    else
        frame_coro<St, 300>(st, slot, tag).detach();
}

enum Policy { P_DEFAULT = 0, P_REUSABLE, P_MTSAFE, P_STACK, P_PLACEMENT, P_BUFFER, P_EXTRA_DEFAULT, P_EXTRA_REUSABLE, P_EXTRA_MTSAFE, P_BUFFER24, P_EXTRA16_DEFAULT, P_EXTRA16_REUSABLE, NPOL };
static const char *pol_names[] = {"default", "reusable", "reusable_mtsafe", "stack_storage", "placement_alloc", "reusable_buffer", "extra+default", "extra+reusable", "extra+reusable_mtsafe", "reusable_buffer<24-byte items>", "extra(alignas16)+default", "extra(alignas16)+reusable"};
static bool single_frame(int p) { return p == P_REUSABLE || p == P_PLACEMENT || p == P_BUFFER || p == P_EXTRA_REUSABLE || p == P_BUFFER24 || p == P_EXTRA16_REUSABLE; }

enum { CREATE_S = 0, CREATE_M, CREATE_L, FINISH0, FINISH1, FINISH2, MOVE_CTOR, MOVE_ASSIGN, MOVE_AWAY, MOVE_ASSIGN_WARM, CREATE_NOMEM, NOPS };
static const char *op_names[] = {"create(S)", "create(M)", "create(L)", "finish(0)", "finish(1)", "finish(2)", "move-construct-storage", "move-assign-storage", "move-away-and-keep-using-the-source", "move-assign-onto-storage-that-owns-a-block", "create(M)-while-operator-new-fails"};

static std::string describe(int pol, const std::vector<int> &seq) {
    std::ostringstream o;
    o << "policy=" << pol << ":" << pol_names[pol] << ";ops=";
    for (size_t i = 0; i < seq.size(); i++) o << (i ? "," : "") << op_names[seq[i]];
    return o.str();
}

// per-policy storage holder: next() returns the storage object to use for the next coroutine
struct HDefault {
    Spy<cocls::default_storage> st;
    auto &next() { return st; }
};
struct HReusable {
    // the storage object itself can be moved (e.g. its owner relocated by a growing vector): the warm block moves along
    std::unique_ptr<Spy<cocls::reusable_storage>> st{new Spy<cocls::reusable_storage>()};
    auto &next() { return *st; }
    void move_ctor() {
        std::unique_ptr<Spy<cocls::reusable_storage>> n(new Spy<cocls::reusable_storage>(std::move(*st)));
        st = std::move(n);
    }
    void move_away() {
        // the block goes to another object (which dies); the moved-from object stays in use and starts from scratch
        Spy<cocls::reusable_storage> taker(std::move(*st));
    }
    void move_assign() {
        std::unique_ptr<Spy<cocls::reusable_storage>> n(new Spy<cocls::reusable_storage>());
        static_cast<cocls::reusable_storage &>(*n) = std::move(static_cast<cocls::reusable_storage &>(*st));
        st = std::move(n);
    }
    void move_assign_onto_warm() {
        // the destination of the assignment already owns a block of its own (it served a frame before): that block is released,
        // the source's block is taken over
        std::unique_ptr<Spy<cocls::reusable_storage>> n(new Spy<cocls::reusable_storage>());
        static_cast<cocls::reusable_storage &>(*n).alloc(24);
        static_cast<cocls::reusable_storage &>(*n) = std::move(static_cast<cocls::reusable_storage &>(*st));
        st = std::move(n);
    }
};
struct HMtsafe {
    Spy<cocls::reusable_storage_mtsafe> st;
    auto &next() { return st; }
};
struct HStack {
    std::size_t state = 0;
    std::vector<std::unique_ptr<Spy<cocls::stack_storage>>> sts;
    std::vector<std::unique_ptr<std::vector<char>>> bufs;
    ~HStack() {
        seqx::NoCount nc;
        sts.clear();
        bufs.clear();
        sts.shrink_to_fit();
        bufs.shrink_to_fit();
    }
    auto &next() {
        seqx::NoCount nc;  // the "stack" space itself (alloca in real use) is not a heap allocation of the policy
        sts.emplace_back(new Spy<cocls::stack_storage>(state));
        std::size_t want = *sts.back();
        bufs.emplace_back(new std::vector<char>(want ? want : 1, (char)0xFF));  // alloca memory is whatever the stack held before
        *static_cast<cocls::stack_storage *>(sts.back().get()) = bufs.back()->data();
        return *sts.back();
    }
};
struct HPlacement {
    alignas(16) char buf[4096];
    Spy<cocls::placement_alloc> st{buf};
    auto &next() { return st; }
};
struct HBuffer {
    std::vector<char> buf;
    Spy<cocls::reusable_buffer_storage<std::vector<char>>> st{buf};
    auto &next() { return st; }
};
struct HBuffer24 {
    std::vector<Pod24> buf;  // item size does not divide the frame sizes
    Spy<cocls::reusable_buffer_storage<std::vector<Pod24>>> st{buf};
    auto &next() { return st; }
};
struct HExtra16Default {
    Spy<cocls::promise_extra_storage<Extra16, cocls::default_storage>> st{[] { return Extra16(); }};
    auto &next() { return st; }
};
struct HExtra16Reusable {
    Spy<cocls::promise_extra_storage<Extra16, cocls::reusable_storage>> st{[] { return Extra16(); }};
    auto &next() { return st; }
};
struct HExtraDefault {
    Spy<cocls::promise_extra_storage<Extra, cocls::default_storage>> st{[] { return Extra(); }};
    auto &next() { return st; }
};
struct HExtraMtsafe {
    Spy<cocls::promise_extra_storage<Extra, cocls::reusable_storage_mtsafe>> st{[] { return Extra(); }};
    auto &next() { return st; }
};
struct HExtraReusable {
    Spy<cocls::promise_extra_storage<Extra, cocls::reusable_storage>> st{[] { return Extra(); }};
    auto &next() { return st; }
};

template <typename H>
static void run_policy(seqx::Runner &R, int pol, const std::vector<int> &seq) {
    R.begin(describe(pol, seq));
    g_R = &R;
    {
        seqx::NoCount nc;
        g_log.clear();
    }
    g_spy_allocs = g_spy_deallocs = 0;
    g_extra_ctor = g_extra_dtor = 0;
    g_extra_wrong_dtor = 0;
    for (auto &x : g_extra_live) x = nullptr;
    std::vector<std::unique_ptr<Slot>> live;
    std::vector<std::unique_ptr<Slot>> all_done;
    live.reserve(16);
    all_done.reserve(16);
    int64_t base = seqx::live_allocs();
    {
        auto h = std::make_unique<H>();
        bool seen_cls[3] = {false, false, false};
        int max_cls_seen = -1;
        bool is_extra = pol == P_EXTRA_DEFAULT || pol == P_EXTRA_REUSABLE || pol == P_EXTRA_MTSAFE || pol == P_EXTRA16_DEFAULT || pol == P_EXTRA16_REUSABLE;
        bool is_mtsafe = pol == P_MTSAFE || pol == P_EXTRA_MTSAFE;
        int tag = 1;
        for (size_t i = 0; i < seq.size() && !R.case_fail; i++) {
            int op = seq[i];
            R.step();
            if (op <= CREATE_L) {
                int cls = op;
                std::unique_ptr<Slot> s;
                {
                    seqx::NoCount nc;
                    s.reset(new Slot());
                }
                s->gate_p = s->gate.get_promise();
                s->cls = cls;
                auto &st = h->next();
                uint64_t news_before = seqx::news();
                int extra_before = g_extra_ctor;
                // every other history creates its frames through coroutines that are non-static member functions
                if ((seq.size() + (size_t)pol) & 1)
                    start_member_coro(st, s.get(), cls, tag++);
                else
                    start_coro(st, s.get(), cls, tag++);
                uint64_t news = seqx::news() - news_before;
                if (!s->started) R.fail("storage/coroutine-did-not-start", "coroutine did not run to its first suspension");
                // a buffer policy places the frame in the caller's buffer, nowhere else
                if constexpr (requires { h->buf.data(); }) {
                    const char *lo = reinterpret_cast<const char *>(h->buf.data());
                    const char *hi = lo + h->buf.size() * sizeof(*h->buf.data());
                    seqx::NoCount nc2;
                    if (g_log.empty() || g_log.back().p < lo || g_log.back().p + g_log.back().sz > hi)
                        R.fail("storage/frame-outside-buffer", "the frame was not placed inside the caller's buffer (buffer holds %zu bytes)", (size_t)(hi - lo));
                }
                // warm-up rule for the reusing policies: an equally sized (or smaller) frame needs no further heap memory
                bool reusing = pol == P_REUSABLE || pol == P_BUFFER || pol == P_BUFFER24 || pol == P_EXTRA_REUSABLE || pol == P_EXTRA16_REUSABLE || pol == P_PLACEMENT || (is_mtsafe && live.empty());
                if (reusing && cls <= max_cls_seen && news != 0)
                    R.fail("storage/allocation-after-warm-up", "%s: creating a frame of class %d after warm-up with class %d performed %lu heap allocations", pol_names[pol], cls,
                           max_cls_seen, (unsigned long)news);
                if (pol == P_STACK && seen_cls[cls] && cls <= max_cls_seen && news != 0)
                    R.fail("storage/allocation-after-warm-up", "stack_storage learned size class %d but still performed %lu heap allocations", max_cls_seen, (unsigned long)news);
                if (pol == P_DEFAULT && news != 1) R.fail("storage/default-allocations", "default policy performed %lu allocations for one frame", (unsigned long)news);
                if (is_extra) {
                    if (g_extra_ctor - extra_before < 1) R.fail("storage/extra-not-constructed", "attached extra object was not constructed with the frame");
                    // usable as soon as the coroutine object exists
                    if constexpr (requires { st.inventory; }) {
                        if (st.inventory == nullptr || st->value != 77) R.fail("storage/extra-not-usable", "attached extra object is not usable right after creation");
                    }
                }
                seen_cls[cls] = true;
                // warm-up knowledge: the thread-safe variant only learns from frames that went into its block
                if (cls > max_cls_seen && !(is_mtsafe && !live.empty())) max_cls_seen = cls;
                seqx::NoCount nc;
                live.push_back(std::move(s));
            } else if (op == CREATE_NOMEM) {
                // the thread-safe storage is taken (a frame lives in its block): the next frame would go to the heap, and the heap
                // has nothing to give. The creation fails with bad_alloc and leaves everything as it was - the block still
                // belongs to the frame that lives in it
                std::unique_ptr<Slot> s;
                {
                    seqx::NoCount nc;
                    s.reset(new Slot());
                }
                s->gate_p = s->gate.get_promise();
                auto &st = h->next();
                bool threw = false;
                seqx::g_fail_next_new = true;
                try {
                    start_coro(st, s.get(), 1, tag++);
                } catch (const std::bad_alloc &) {
                    threw = true;
                }
                seqx::g_fail_next_new = false;
                if (!threw || s->started) R.fail("storage/harness", "creation with a failing operator new: threw=%d started=%d", (int)threw, (int)s->started);
                s->gate_p();
                seqx::NoCount nc;
                s.reset();
            } else if (op == MOVE_ASSIGN_WARM) {
                if constexpr (requires { h->move_assign_onto_warm(); }) h->move_assign_onto_warm();
            } else if (op == MOVE_CTOR || op == MOVE_ASSIGN || op == MOVE_AWAY) {
                if constexpr (requires { h->move_ctor(); }) {
                    if (op == MOVE_CTOR)
                        h->move_ctor();
                    else if (op == MOVE_ASSIGN)
                        h->move_assign();
                    else {
                        h->move_away();
                        max_cls_seen = -1;  // the warm block left with the other object
                        seen_cls[0] = seen_cls[1] = seen_cls[2] = false;
                    }
                }
            } else {
                size_t idx = (size_t)(op - FINISH0);
                live[idx]->gate_p();
                if (!live[idx]->done) R.fail("storage/coroutine-did-not-finish", "coroutine did not finish after its gate was opened");
                if (!live[idx]->canary_ok) R.fail("storage/frame-memory-clobbered", "a suspended frame's local buffer was overwritten: its memory was not exclusively its own");
                seqx::NoCount nc;
                all_done.push_back(std::move(live[idx]));
                live.erase(live.begin() + (long)idx);
            }
            // canonical state: live frame classes + warm-up knowledge
            uint64_t key = (uint64_t)pol * 8 + (uint64_t)(max_cls_seen + 1);
            for (auto &s : live) key = seqx::mix(key, (uint64_t)s->cls + 1);
            R.state(key);
        }
        // teardown: finish whatever is live
        while (!live.empty() && !R.case_fail) {
            live.back()->gate_p();
            if (!live.back()->canary_ok) R.fail("storage/frame-memory-clobbered", "a suspended frame's local buffer was overwritten");
            seqx::NoCount nc;
            all_done.push_back(std::move(live.back()));
            live.pop_back();
        }
        if (!R.case_fail) {
            if (g_spy_allocs != g_spy_deallocs) R.fail("storage/dealloc-count", "%d frames allocated but %d deallocated", g_spy_allocs, g_spy_deallocs);
            if (is_extra && g_extra_ctor != g_extra_dtor) R.fail("storage/extra-lifetime", "extra objects: %d constructed, %d destroyed", g_extra_ctor, g_extra_dtor);
            if (is_extra && g_extra_wrong_dtor) R.fail("storage/extra-destroyed-elsewhere", "%d extra objects were destroyed at an address where none had been constructed", g_extra_wrong_dtor);
            if (is_extra)
                for (void *x : g_extra_live)
                    if (x) {
                        R.fail("storage/extra-lifetime", "an extra object constructed at %p was never destroyed", x);
                        break;
                    }
        }
        {
            seqx::NoCount nc;
            all_done.clear();
            live.clear();
        }
        R.outcome(seqx::mix((uint64_t)g_spy_allocs, (uint64_t)pol));
    }
    {
        seqx::NoCount nc;
        g_log.clear();
        g_log.shrink_to_fit();
    }
    if (!R.case_fail && seqx::live_allocs() != base) R.fail("storage/heap-fallback-balance", "%ld heap blocks of the policy not released exactly once", (long)(seqx::live_allocs() - base));
    R.end(true);
}

static void run_case(seqx::Runner &R, int pol, const std::vector<int> &seq) {
    switch (pol) {
        case P_DEFAULT: run_policy<HDefault>(R, pol, seq); break;
        case P_REUSABLE: run_policy<HReusable>(R, pol, seq); break;
        case P_MTSAFE: run_policy<HMtsafe>(R, pol, seq); break;
        case P_STACK: run_policy<HStack>(R, pol, seq); break;
        case P_PLACEMENT: run_policy<HPlacement>(R, pol, seq); break;
        case P_BUFFER: run_policy<HBuffer>(R, pol, seq); break;
        case P_EXTRA_DEFAULT: run_policy<HExtraDefault>(R, pol, seq); break;
        case P_EXTRA_REUSABLE: run_policy<HExtraReusable>(R, pol, seq); break;
        case P_EXTRA_MTSAFE: run_policy<HExtraMtsafe>(R, pol, seq); break;
        case P_BUFFER24: run_policy<HBuffer24>(R, pol, seq); break;
        case P_EXTRA16_DEFAULT: run_policy<HExtra16Default>(R, pol, seq); break;
        case P_EXTRA16_REUSABLE: run_policy<HExtra16Reusable>(R, pol, seq); break;
    }
}

// stack_storage with a pre-initialised size state ("can be preinitialized with some arbitrary constant"): the caller's
// buffer has exactly the size the storage asks for; states around the frame size decide between "fits" and "heap".
// ASan guards both ends of the exactly sized buffer.
static size_t g_frame_size[3];
// same_object: the storage object and its buffer are prepared once and serve both frames one after the other (a loop that starts
// one coroutine per iteration); otherwise every frame gets a storage object of its own, as the header's example shows
static void stack_presize_case(seqx::Runner &R, int cls, int delta, bool same_object) {
    char nm[96];
    snprintf(nm, sizeof nm, "stack-presize;cls=%d;delta=%d;%s", cls, delta, same_object ? "same-storage-object;" : "");
    R.begin(nm);
    g_R = &R;
    {
        seqx::NoCount nc;
        g_log.clear();
    }
    g_spy_allocs = g_spy_deallocs = 0;
    int64_t base = seqx::live_allocs();
    {
        size_t sz = g_frame_size[cls];
        size_t state = delta == -1000 ? 0 : (size_t)((long)sz + delta);
        size_t init = state;
        std::unique_ptr<Spy<cocls::stack_storage>> st;
        std::unique_ptr<std::vector<char>> buf;
        size_t want = 0;
        for (int round = 0; round < 2 && !R.case_fail; round++) {  // second round: what the first one learned
            std::unique_ptr<Slot> s;
            {
                seqx::NoCount nc;
                s.reset(new Slot());
                if (!st) {
                    st.reset(new Spy<cocls::stack_storage>(state));
                    want = *st;
                    buf.reset(new std::vector<char>(want ? want : 1, (char)0xFF));  // a dirty stack, as alloca gives
                    *static_cast<cocls::stack_storage *>(st.get()) = buf->data();
                }
            }
            s->gate_p = s->gate.get_promise();
            R.step();
            uint64_t before = seqx::news();
            start_coro(*st, s.get(), cls, 7 + round);
            uint64_t news = seqx::news() - before;
            bool fits = want >= sz + 1;  // frame plus the heap/stack flag byte
            if (news != (fits ? 0u : 1u))
                R.fail("storage/stack-presize", "stack_storage with a %zu byte buffer and a %zu byte frame performed %lu heap allocations (round %d, initial state %zu)", want, sz,
                       (unsigned long)news, round, init);
            if (!fits && state < sz + 1) R.fail("storage/stack-not-learned", "after a heap fallback for a %zu byte frame the shared state is %zu: the next frame will not fit either", sz, state);
            s->gate_p();
            if (!s->done || !s->canary_ok) R.fail("storage/frame-memory-clobbered", "frame did not finish intact");
            seqx::NoCount nc;
            s.reset();
            if (!same_object || round == 1) {
                st.reset();
                buf.reset();
            }
        }
        if (!R.case_fail && g_spy_allocs != g_spy_deallocs) R.fail("storage/dealloc-count", "%d frames allocated but %d deallocated", g_spy_allocs, g_spy_deallocs);
        R.outcome(seqx::mix((uint64_t)cls, (uint64_t)(delta + 2000)));
        R.state(seqx::hash_str(nm));
    }
    {
        seqx::NoCount nc;
        g_log.clear();
        g_log.shrink_to_fit();
    }
    if (!R.case_fail && seqx::live_allocs() != base) R.fail("storage/heap-fallback-balance", "%ld heap blocks of the policy not released exactly once", (long)(seqx::live_allocs() - base));
    R.end(true);
}
static void learn_frame_sizes(seqx::Runner &R) {
    seqx::NoCount nc;
    g_R = &R;
    for (int cls = 0; cls < 3; cls++) {
        size_t state = 0;
        Slot s;
        s.gate_p = s.gate.get_promise();
        Spy<cocls::stack_storage> st(state);
        char dummy[1];
        static_cast<cocls::stack_storage &>(st) = dummy;
        g_log.clear();
        start_coro(st, &s, cls, 1);
        g_frame_size[cls] = g_log.back().sz;  // what the coroutine asked the policy for
        s.gate_p();
        g_log.clear();
    }
}
static const int presize_deltas[] = {-1000, -9, -8, -2, -1, 0, 1, 2, 7, 8, 9, 64};

static void dfs(seqx::Runner &R, int pol, int depth, std::vector<int> &seq, int nlive) {
    if (R.stop()) return;
    if ((int)seq.size() == depth) {
        if (R.next_case()) run_case(R, pol, seq);
        return;
    }
    for (int op = 0; op < NOPS; op++) {
        if (op <= CREATE_L) {
            if (nlive >= (single_frame(pol) ? 1 : 3)) continue;
            seq.push_back(op);
            dfs(R, pol, depth, seq, nlive + 1);
            seq.pop_back();
        } else if (op == CREATE_NOMEM) {
            if ((pol != P_MTSAFE && pol != P_EXTRA_MTSAFE) || nlive == 0 || nlive >= 3) continue;
            // only while the block is certainly taken (nothing has finished yet, so the first frame still lives in it): the failing
            // allocation is then the heap fallback. (A failing allocation while the block is free and too small leaves
            // reusable_storage with a dangling block pointer - resource exhaustion is outside the property, see DESIGN section 6.)
            if (std::find_if(seq.begin(), seq.end(), [](int o) { return o >= FINISH0 && o <= FINISH2; }) != seq.end()) continue;
            seq.push_back(op);
            dfs(R, pol, depth, seq, nlive);
            seq.pop_back();
        } else if (op == MOVE_CTOR || op == MOVE_ASSIGN || op == MOVE_AWAY || op == MOVE_ASSIGN_WARM) {
            if (pol != P_REUSABLE || nlive != 0 || seq.empty() || seq.back() >= MOVE_CTOR) continue;
            seq.push_back(op);
            dfs(R, pol, depth, seq, nlive);
            seq.pop_back();
        } else {
            if (op - FINISH0 >= nlive) continue;
            seq.push_back(op);
            dfs(R, pol, depth, seq, nlive - 1);
            seq.pop_back();
        }
    }
}

}  // namespace

void seqx_run(seqx::Runner &R, const std::string &tier) {
    seq_warmup();
    learn_frame_sizes(R);
    for (int cls = 0; cls < 3; cls++)
        for (int d : presize_deltas)
            for (int same = 0; same < 2; same++)
                if (R.next_case()) stack_presize_case(R, cls, d, same != 0);
    for (int pol = 0; pol < NPOL; pol++) {
        std::vector<int> seq;
        dfs(R, pol, tier == "quick" ? 5 : 7, seq, 0);
    }
}

void seqx_replay(seqx::Runner &R, const std::string &c) {
    seq_warmup();
    if (c.rfind("stack-presize", 0) == 0) {
        learn_frame_sizes(R);
        R.next_case();
        stack_presize_case(R, atoi(c.c_str() + c.find("cls=") + 4), atoi(c.c_str() + c.find("delta=") + 6), c.find("same-storage-object") != std::string::npos);
        return;
    }
    int pol = atoi(c.c_str() + c.find("policy=") + 7);
    std::vector<int> seq;
    std::stringstream ss(c.substr(c.find("ops=") + 4));
    std::string tok;
    while (std::getline(ss, tok, ','))
        for (int i = 0; i < NOPS; i++)
            if (tok == op_names[i]) seq.push_back(i);
    R.next_case();
    run_case(R, pol, seq);
}

SEQX_MAIN()
