// C14 (sequential part) - generator aggregator: multiset union of all sources, per-source order preserved,
// ends iff all ended, a source's exception loses nothing and is reported, arguments follow the last returned source.
#include <cocls/future.h>
#include <cocls/async.h>
#include <cocls/generator.h>
#include <cocls/generator_aggregator.h>

#include <map>
#include <memory>
#include <sstream>

#include "../engine/seqx/seqx.h"
#include "common_seq.h"

namespace {

struct TestError {};  // deliberately not derived from std::exception: a source may end by throwing anything
static long g_guard_live;
struct Guard {
    Guard() { ++g_guard_live; }
    ~Guard() { --g_guard_live; }
    Guard(const Guard &) = delete;
};

// source kinds
enum SrcKind { EMPTY = 0, FIN1, FIN2, FIN3, INF, THROW_FIRST, THROW_AFTER1, ASYNC2, NSRC };
static const char *src_names[] = {"empty", "fin1", "fin2", "fin3", "inf", "throw@0", "throw@1", "async2"};
enum CS { NEXT_VALUE = 0, CO_NEXT, CALL_WAIT, CALL_HASV, NCS };
static const char *cs_names[] = {"next/value", "co_await-next", "call+wait", "call+co_await-has_value"};

constexpr int MAXS = 5;  // up to five sources (thorough tier)
struct Ctx {
    cocls::future<int> gate[MAXS];
    cocls::promise<int> gate_p[MAXS];
    bool gate_used[MAXS] = {};
    bool gate_resolved[MAXS] = {};
    std::vector<int> args_seen[MAXS];
};

static int count_of(int kind) { return kind == FIN1 ? 1 : kind == FIN2 ? 2 : kind == FIN3 ? 3 : kind == THROW_AFTER1 ? 1 : kind == ASYNC2 ? 2 : kind == INF ? 1000 : 0; }

static cocls::generator<int> source(Ctx &c, int idx, int kind) {
    Guard g;
    if (kind == THROW_FIRST) throw TestError();
    if (kind == ASYNC2) co_await c.gate[idx];
    int n = count_of(kind);
    for (int j = 1; j <= n; j++) co_yield idx * 100 + j;
    if (kind == THROW_AFTER1) throw TestError();
}
static cocls::generator<int, int> source_arg(Ctx &c, int idx, int kind) {
    Guard g;
    int a = co_yield nullptr;
    c.args_seen[idx].push_back(a);
    if (kind == THROW_FIRST) throw TestError();
    if (kind == ASYNC2) co_await c.gate[idx];
    int n = count_of(kind);
    for (int j = 1; j <= n; j++) {
        a = co_yield idx * 100 + j;
        c.args_seen[idx].push_back(a);
    }
    if (kind == THROW_AFTER1) throw TestError();
}

struct Obs {
    int kind = 0;  // 1 value 2 end 3 TestError 4 no_more_values 9 other
    int val = 0;
    bool done = false;
};
template <typename G>
static cocls::async<void> access_co(G &gen, int style, int arg, Obs &o) {
    constexpr bool has_arg = !G::arg_is_void;
    try {
        if (style == CO_NEXT) {
            bool b;
            if constexpr (has_arg)
                b = co_await gen.next(arg);
            else
                b = co_await gen.next();
            if (b) {
                o.val = gen.value();
                o.kind = 1;
            } else
                o.kind = 2;
        } else {
            cocls::future<int> f;
            if constexpr (has_arg)
                f << [&] { return gen(arg); };
            else
                f << [&] { return gen(); };
            bool hv = co_await f.has_value();
            if (hv) {
                o.val = *f;
                o.kind = 1;
            } else
                o.kind = 2;
        }
    } catch (const TestError &) {
        o.kind = 3;
    } catch (const cocls::no_more_values_exception &) {
        o.kind = 4;
    } catch (...) {
        o.kind = 9;
    }
    o.done = true;
}
// one consumer coroutine performs every access in a single activation (the other mode starts a fresh outermost activation
// per access): what the aggregate readies in between waits in this thread's ready queue
static bool g_one_coroutine;
template <typename G>
static cocls::async<void> consume_all(G &gen, int style, int style2, int limit, std::vector<Obs> &out, bool &fin) {
    for (int i = 0; i < limit; i++) {
        Obs o;
        co_await access_co(gen, (i % 2) ? style2 : style, 1000 + i, o);
        out.push_back(o);
        if (o.kind != 1) break;
    }
    fin = true;
}
template <typename G>
static Obs access_sync(G &gen, int style, int arg) {
    constexpr bool has_arg = !G::arg_is_void;
    Obs o;
    try {
        if (style == NEXT_VALUE) {
            bool b;
            if constexpr (has_arg)
                b = gen.next(arg);
            else
                b = gen.next();
            if (b) {
                o.val = gen.value();
                o.kind = 1;
            } else
                o.kind = 2;
        } else {
            if constexpr (has_arg) {
                cocls::future<int> f = gen(arg);
                o.val = f.wait();
            } else {
                cocls::future<int> f = gen();
                o.val = f.wait();
            }
            o.kind = 1;
        }
    } catch (const TestError &) {
        o.kind = 3;
    } catch (const cocls::await_canceled_exception &) {
        o.kind = 2;
    } catch (const cocls::no_more_values_exception &) {
        o.kind = 4;
    } catch (...) {
        o.kind = 9;
    }
    o.done = true;
    return o;
}

static std::string describe(bool with_arg, const std::vector<int> &src, int style, int style2, int stop_after) {
    std::ostringstream o;
    o << "arg=" << (with_arg ? 1 : 0) << ";sources=";
    for (size_t i = 0; i < src.size(); i++) o << (i ? "," : "") << src_names[src[i]];
    o << ";style=" << cs_names[style] << ";style2=" << cs_names[style2] << ";stop_after=" << stop_after;
    if (g_one_coroutine) o << ";consumer=one-coroutine";
    return o.str();
}

template <typename G>
static void run_case_t(seqx::Runner &R, bool with_arg, const std::vector<int> &src, int style, int style2, int stop_after) {
    R.begin(describe(with_arg, src, style, style2, stop_after));
    int64_t base = seqx::live_allocs();
    g_guard_live = 0;
    {
        Ctx c;
        bool any_inf = false, any_throw = false;
        // the aggregate is built by a factory whose source vector is a local that is gone before the first value is asked for
        auto make_aggregate = [&]() -> G {
            std::vector<G> list;
            for (size_t i = 0; i < src.size(); i++) {
                if (src[i] == ASYNC2) {
                    c.gate_p[i] = c.gate[i].get_promise();
                    c.gate_used[i] = true;
                }
                any_inf |= src[i] == INF;
                any_throw |= src[i] == THROW_FIRST || src[i] == THROW_AFTER1;
                if constexpr (G::arg_is_void)
                    list.push_back(source(c, (int)i, src[i]));
                else
                    list.push_back(source_arg(c, (int)i, src[i]));
            }
            return cocls::generator_aggregator(std::move(list));
        };
        std::unique_ptr<G> agg(new G(make_aggregate()));
        std::map<int, std::vector<int>> got;  // per source: values in arrival order
        std::vector<int> call_source;        // source of the value returned by call #i (-1 none)
        std::vector<int> args_passed;
        int limit = stop_after >= 0 ? stop_after : (any_inf ? 6 : 100);
        int final_kind = 0;
        std::vector<Obs> pre;
        if (g_one_coroutine) {
            bool fin = false;
            pre.reserve((size_t)limit + 1);
            consume_all(*agg, style, style2, limit, pre, fin).detach();
            for (int k = 0; k < MAXS && !fin; k++)
                if (c.gate_used[k] && !c.gate_resolved[k]) {
                    c.gate_resolved[k] = true;
                    c.gate_p[k](1);
                }
            if (!fin) R.fail("aggr/async-access-never-completed", "the consumer coroutine did not finish after all gates were opened (%zu accesses completed)", pre.size());
        }
        for (int i = 0; i < limit && !R.case_fail; i++) {
            int st = (i % 2) ? style2 : style;
            int arg = 1000 + i;
            Obs o;
            R.step();
            if (g_one_coroutine) {
                if ((size_t)i >= pre.size()) break;
                o = pre[(size_t)i];
                args_passed.push_back(arg);
            } else
                args_passed.push_back(arg);
            if (g_one_coroutine) {
            } else if (st == NEXT_VALUE || st == CALL_WAIT)
                o = access_sync(*agg, st, arg);
            else {
                access_co(*agg, st, arg, o).detach();
                for (int k = 0; k < MAXS && !o.done; k++)
                    if (c.gate_used[k] && !c.gate_resolved[k]) {
                        c.gate_resolved[k] = true;
                        c.gate_p[k](1);
                    }
                if (!o.done) {
                    R.fail("aggr/async-access-never-completed", "access #%d did not complete after all gates were opened", i);
                    break;
                }
            }
            if (o.kind == 1) {
                int s = o.val / 100;
                got[s].push_back(o.val);
                call_source.push_back(s);
            } else {
                call_source.push_back(-1);
                final_kind = o.kind;
                break;
            }
        }
        if (!R.case_fail) {
            // per-source subsequence order, no duplicates, nothing invented
            for (auto &kv : got) {
                int s = kv.first;
                if (s < 0 || s >= (int)src.size()) {
                    R.fail("aggr/invented-value", "value %d does not belong to any source", kv.second[0]);
                    break;
                }
                for (size_t j = 0; j < kv.second.size(); j++)
                    if (kv.second[j] != s * 100 + (int)j + 1) {
                        R.fail("aggr/per-source-order", "source %d: %zu-th delivered value is %d, the source yields %d there (lost, duplicated or reordered)", s, j, kv.second[j],
                               s * 100 + (int)j + 1);
                        break;
                    }
                if ((int)kv.second.size() > count_of(src[(size_t)s])) R.fail("aggr/invented-value", "source %d delivered more values than it yields", s);
            }
            if (final_kind != 0) {
                // the stream ended: every source must have been drained completely ("ends when and only when all ended")
                for (size_t s = 0; s < src.size() && !R.case_fail; s++) {
                    int want = count_of(src[s]);
                    int have = got.count((int)s) ? (int)got[(int)s].size() : 0;
                    if (src[s] != INF && have != want)
                        R.fail("aggr/value-lost", "aggregate ended but source %zu (%s) delivered %d of %d values (an exception in one source must not lose the others' values)", s,
                               src_names[src[s]], have, want);
                    if (src[s] == INF) R.fail("aggr/ended-with-live-source", "aggregate ended although an infinite source is still alive");
                }
                if (!R.case_fail) {
                    if (any_throw && final_kind != 3) R.fail("aggr/exception-not-reported", "a source threw but the consumer saw end kind %d instead of the exception", final_kind);
                    if (!any_throw && !(final_kind == 2 || final_kind == 4)) R.fail("aggr/wrong-end", "final indication kind %d", final_kind);
                }
            } else if (stop_after < 0 && !any_inf)
                R.fail("aggr/never-ended", "all sources are finite but the aggregate did not end within %d accesses", limit);
            if constexpr (!G::arg_is_void) {
                // first argument initialises every source; argument #i (i>=1) goes to the source returned by call #i-1
                for (size_t s = 0; s < src.size() && !R.case_fail; s++) {
                    std::vector<int> want;
                    if (!args_passed.empty()) want.push_back(args_passed[0]);
                    for (size_t i = 0; i + 1 < args_passed.size(); i++)
                        if (i < call_source.size() && call_source[i] == (int)s) want.push_back(args_passed[i + 1]);
                    auto &seen = c.args_seen[s];
                    for (size_t k = 0; k < seen.size(); k++)
                        if (k >= want.size() || seen[k] != want[k]) {
                            R.fail("aggr/wrong-argument", "source %zu: resumption #%zu received %d, expected %d", s, k, seen[k], k < want.size() ? want[k] : -1);
                            break;
                        }
                }
            }
        }
        // open remaining gates before destruction (destroying with in-flight asynchronous sources blocks: vrt part)
        for (int k = 0; k < MAXS; k++)
            if (c.gate_used[k] && !c.gate_resolved[k]) {
                c.gate_resolved[k] = true;
                c.gate_p[k](1);
            }
        agg.reset();
        size_t total = 0;
        for (auto &kv : got) total += kv.second.size();
        R.outcome(seqx::mix((uint64_t)total, (uint64_t)final_kind));
        R.state(seqx::hash_str(describe(with_arg, src, 0, 0, 0)) + total);
    }
    if (g_guard_live != 0) R.fail("aggr/source-locals", "%ld source locals alive after the aggregate was destroyed", g_guard_live);
    if (!R.case_fail && seqx::live_allocs() != base) R.fail("aggr/allocation-balance", "%ld allocations not released", (long)(seqx::live_allocs() - base));
    R.end(!src.empty());
}

static void run_case(seqx::Runner &R, bool with_arg, const std::vector<int> &src, int style, int style2, int stop_after) {
    if (with_arg)
        run_case_t<cocls::generator<int, int>>(R, with_arg, src, style, style2, stop_after);
    else
        run_case_t<cocls::generator<int>>(R, with_arg, src, style, style2, stop_after);
}

static void enum_sources(seqx::Runner &R, int maxn, std::vector<int> &src, int from) {
    if (R.stop()) return;
    bool any_async = false;
    for (int s : src) any_async |= s == ASYNC2;
    for (int with_arg = 0; with_arg < 2; with_arg++)
        for (int st = 0; st < NCS; st++)
            for (int st2 = st; st2 < NCS; st2++) {
                auto blocking = [](int s) { return s == NEXT_VALUE || s == CALL_WAIT; };
                if (any_async && (blocking(st) || blocking(st2))) continue;
                for (int stop = -1; stop <= 2; stop++) {
                    if (stop == 0) continue;
                    if (R.next_case()) run_case(R, with_arg != 0, src, st, st2, stop);
                    if (!blocking(st) && !blocking(st2)) {
                        g_one_coroutine = true;
                        if (R.next_case()) run_case(R, with_arg != 0, src, st, st2, stop);
                        g_one_coroutine = false;
                    }
                }
            }
    if ((int)src.size() == maxn) return;
    for (int k = from; k < NSRC; k++) {
        src.push_back(k);
        enum_sources(R, maxn, src, k);
        src.pop_back();
    }
}

}  // namespace

void seqx_run(seqx::Runner &R, const std::string &tier) {
    seq_warmup();
    std::vector<int> src;
    enum_sources(R, tier == "quick" ? 3 : 5, src, 0);
}

void seqx_replay(seqx::Runner &R, const std::string &c) {
    seq_warmup();
    bool with_arg = c.find("arg=1") != std::string::npos;
    std::vector<int> src;
    {
        size_t p = c.find("sources=") + 8, e = c.find(';', p);
        std::stringstream ss(c.substr(p, e - p));
        std::string tok;
        while (std::getline(ss, tok, ','))
            for (int i = 0; i < NSRC; i++)
                if (tok == src_names[i]) src.push_back(i);
    }
    int st = 0, st2 = 0;
    for (int i = 0; i < NCS; i++) {
        if (c.find(std::string(";style=") + cs_names[i] + ";") != std::string::npos) st = i;
        if (c.find(std::string(";style2=") + cs_names[i] + ";") != std::string::npos) st2 = i;
    }
    int stop = atoi(c.c_str() + c.find("stop_after=") + 11);
    R.next_case();
    g_one_coroutine = c.find(";consumer=one-coroutine") != std::string::npos;
    run_case(R, with_arg, src, st, st2, stop);
    g_one_coroutine = false;
}

SEQX_MAIN()
