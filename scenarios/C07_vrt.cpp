// C07 / C08 - coroutine mutex: mutual exclusion, exactly-once grant, FIFO hand-off, no lost request.
// Real cocls::mutex, K contenders on their own threads, every flavour of request and release.
#include "common_vrt.h"
#include <cocls/mutex.h>
#include <cocls/thread_pool.h>
#include <atomic>
#include <memory>

namespace {

enum Flavour { CO = 0, BL = 1, TRY = 2, CB = 3 };
enum Release { DIS = 0, DTOR = 1, AWT = 2, MOVE = 3, POOL = 4, ASSIGN = 5, SLOT = 6 };
static const char *fl_names[] = {"co", "bl", "try", "cb"};
static const char *rl_names[] = {"dis", "dtor", "awt", "move", "pool", "assign", "slot"};

constexpr int MAXK = 4;
// scratch layout
enum { S_INCS = 0, S_GRANTS = 1, S_DONE = 2, S_REQ = 10 /*+id*/, S_PARK = 20, S_GRANT = 30, S_INBODY = 40, S_TRYFAIL = 50 };

struct Shared {
    cocls::mutex mx;
    std::atomic<int> dummy{0};  // relaxed load = scheduling point without happens-before
    int probe = 0;              // plain: broken exclusion is also a data race
    std::atomic<int> finished{0};  // contenders that are completely done (gives main a happens-before edge before teardown)
    std::unique_ptr<cocls::thread_pool> pool;  // release style 'pool': the next owner is resumed on a pool worker
    cocls::mutex::ownership slot;  // release style 'slot': every owner keeps its ownership in this one shared place (a session
                                   // object holding the lock across calls); only the current owner ever touches it
};

static void critical(Shared &sh, int id) {
    int64_t *s = vrt_scratch();
    s[S_GRANT + id] = next_seq();
    s[S_GRANTS]++;
    if (++s[S_INCS] != 1) vrt_fail("mutex/two-owners", "contender %d entered the critical section while another owner is inside", id);
    sh.probe++;
    (void)sh.dummy.load(std::memory_order_relaxed);
    sh.probe++;
    if (--s[S_INCS] != 0) vrt_fail("mutex/two-owners", "contender %d left the critical section and found another owner inside", id);
}

static void release_on_thread(cocls::mutex::ownership own) {
    // ownership moved to another thread which releases it
    vstd::thread t([o = std::move(own)]() mutable {
        vrt_label("releaser");
        o.release();
    });
    t.detach();
}

static void body_enter(int id) {
    int64_t *s = vrt_scratch();
    if (s[S_INBODY + id]++ != 0) vrt_fail("mutex/resumed-while-running", "coroutine of contender %d was resumed while it was already running", id);
}
static void body_leave(int id) { vrt_scratch()[S_INBODY + id]--; }

static cocls::async<void> co_contender(Shared &sh, int id, int rel, int rounds) {
    body_enter(id);
    for (int r = 0; r < rounds; r++) {
        vrt_scratch()[S_REQ + id] = next_seq();
        body_leave(id);
        cocls::mutex::ownership own = co_await sh.mx.lock();
        body_enter(id);
        critical(sh, id);
        switch (rel) {
            case DIS: own.release(); break;
            case DTOR: break;
            case AWT:
                body_leave(id);
                co_await own.release();
                body_enter(id);
                break;
            case MOVE: release_on_thread(std::move(own)); break;
            case POOL: {
                cocls::suspend_point<void> sp = own.release();
                sh.pool->resume(sp);
                break;
            }
            case ASSIGN: own = cocls::mutex::ownership(); break;  // assigning over a held ownership gives the lock back
            case SLOT:
                sh.slot = std::move(own);
                sh.slot.release();
                break;
        }
    }
    vrt_scratch()[S_DONE]++;
    body_leave(id);
    sh.finished.fetch_add(1);
}

// flavour 'cb': the request is a callback registered with co_awaiter<mutex>::await_suspend(fn, ctx); when the mutex is
// handed over the callback runs inside the previous owner's unlock(), takes the ownership with await_resume(), works and releases
struct CbReq {
    Shared *sh = nullptr;
    int id = 0, rel = 0;
    std::unique_ptr<cocls::co_awaiter<cocls::mutex>> aw;
};
static CbReq g_cbreq[MAXK];
static void cb_owner_body(CbReq &r) {
    cocls::mutex::ownership own = r.aw->await_resume();
    if (!own) vrt_fail("mutex/grant-without-ownership", "callback of contender %d ran but await_resume() gave no ownership", r.id);
    critical(*r.sh, r.id);
    if (r.rel == SLOT) {
        r.sh->slot = std::move(own);
        r.sh->slot.release();
    } else if (r.rel == ASSIGN)
        own = cocls::mutex::ownership();
    else if (r.rel == DIS)
        own.release();
    // DTOR: destructor releases
    vrt_scratch()[S_DONE]++;
    r.sh->finished.fetch_add(1);
}
static cocls::suspend_point<void> cb_granted(cocls::awaiter *, void *ctx) noexcept {
    cb_owner_body(*static_cast<CbReq *>(ctx));
    return {};
}

static void contender_thread(Shared &sh, int id, int fl, int rel, int rounds) {
    static const char *labels[] = {"c0", "c1", "c2", "c3"};
    vrt_label(labels[id]);
    int64_t *s = vrt_scratch();
    if (fl == CB) {
        CbReq &r = g_cbreq[id];
        r.sh = &sh;
        r.id = id;
        r.rel = rel;
        r.aw.reset(new cocls::co_awaiter<cocls::mutex>(sh.mx.lock()));
        s[S_REQ + id] = next_seq();
        if (r.aw->await_ready())
            cb_owner_body(r);  // free: acquired at once
        else if (!r.aw->await_suspend(&cb_granted, &r))
            cb_owner_body(r);  // acquired while registering
        else
            s[S_PARK + id] = next_seq();  // registered: the callback runs in whoever releases
    } else if (fl == CO) {
        co_contender(sh, id, rel, rounds).detach();
        // control is back: the coroutine either finished or is parked in the mutex
        s[S_PARK + id] = next_seq();
    } else if (fl == BL) {
        for (int r = 0; r < rounds; r++) {
            s[S_REQ + id] = next_seq();
            cocls::mutex::ownership own = sh.mx.lock().wait();
            critical(sh, id);
            if (rel == MOVE)
                release_on_thread(std::move(own));
            else if (rel == DIS)
                own.release();
            else if (rel == POOL) {
                cocls::suspend_point<void> sp = own.release();
                sh.pool->resume(sp);
            } else if (rel == ASSIGN)
                own = cocls::mutex::ownership();
            else if (rel == SLOT) {
                sh.slot = std::move(own);
                sh.slot.release();
            }
            // DTOR: destructor releases
        }
        s[S_DONE]++;
        sh.finished.fetch_add(1);
    } else {
        for (int r = 0; r < rounds; r++) {
            s[S_REQ + id] = next_seq();
            cocls::mutex::ownership own = sh.mx.try_lock();
            if (own) {
                critical(sh, id);
                if (rel == MOVE)
                    release_on_thread(std::move(own));
                else if (rel == DIS)
                    own.release();
            } else
                s[S_TRYFAIL]++;
        }
        s[S_DONE]++;
        sh.finished.fetch_add(1);
    }
}

static void run_mx(int K, const int *fl, const int *rel, int rounds) {
    auto sh = std::make_unique<Shared>();
    bool uses_pool = false;
    for (int i = 0; i < K; i++) uses_pool |= rel[i] == POOL;
    if (uses_pool) sh->pool.reset(new cocls::thread_pool(1));
    vstd::thread th[MAXK];
    for (int i = 0; i < K; i++) th[i] = vstd::thread(contender_thread, std::ref(*sh), i, fl[i], rel[i], rounds);
    for (int i = 0; i < K; i++) th[i].join();
    int64_t *s = vrt_scratch();
    // helper "releaser" threads are detached: wait until every contender is done (each release resumes the next)
    vrt_label("main-wait-done");
    while (s[S_DONE] < K || sh->finished.load() < K) vrt_yield();
    vrt_label("main");
    int requests = 0;
    for (int i = 0; i < K; i++) requests += rounds;
    int64_t expected_grants = requests - s[S_TRYFAIL];
    VRT_CHECK(s[S_GRANTS] == expected_grants, "mutex/grant-count", "grants=%ld expected=%ld", (long)s[S_GRANTS], (long)expected_grants);
    // C08 (a): FIFO with respect to the real-time order of requests (rounds == 1 only)
    if (rounds == 1)
        for (int x = 0; x < K; x++)
            for (int y = 0; y < K; y++) {
                if (x == y || (fl[x] != CO && fl[x] != CB) || fl[y] == TRY) continue;
                if (!s[S_PARK + x] || !s[S_REQ + y] || !s[S_GRANT + x] || !s[S_GRANT + y]) continue;
                bool x_parked_waiting = s[S_PARK + x] < s[S_GRANT + x];  // still waiting when its thread regained control
                if (x_parked_waiting && s[S_PARK + x] < s[S_REQ + y] && s[S_GRANT + y] < s[S_GRANT + x])
                    vrt_fail("mutex/fifo", "contender %d was parked (seq %ld) before contender %d requested (seq %ld) but was granted later (%ld > %ld)", x,
                             (long)s[S_PARK + x], y, (long)s[S_REQ + y], (long)s[S_GRANT + x], (long)s[S_GRANT + y]);
            }
    // wait for detached releasers to finish their release() call
    // C08 (c): after every ownership has been released the mutex can be locked again
    vrt_label("main-final-trylock");
    for (;;) {
        auto o = sh->mx.try_lock();
        if (o) break;
        vrt_yield();  // a detached releaser may still be inside release(); if nobody is, this deadlocks => lost unlock
    }
    vrt_label("main");
    for (auto &r : g_cbreq) r.aw.reset();
    sh->pool.reset();
    vrt_outcome("grants=%ld tryfail=%ld first=%d", (long)s[S_GRANTS], (long)s[S_TRYFAIL],
                (int)(s[S_GRANT + 0] < s[S_GRANT + 1] ? 0 : 1));
}

VRT_REGISTER(reg_mx) {
    // two contenders: every flavour pair x release pair (symmetric pairs removed)
    for (int f0 = 0; f0 < 3; f0++)
        for (int f1 = f0; f1 < 3; f1++)
            for (int r0 = 0; r0 < 4; r0++)
                for (int r1 = 0; r1 < 4; r1++) {
                    if ((r0 == AWT && f0 != CO) || (r1 == AWT && f1 != CO)) continue;
                    if (f0 == f1 && r1 < r0) continue;
                    for (int rounds = 1; rounds <= 2; rounds++) {
                        std::string name = std::string("mx2_") + fl_names[f0] + "-" + fl_names[f1] + "_" + rl_names[r0] + "-" + rl_names[r1] + "_r" + std::to_string(rounds);
                        vrt::add(name, [=] {
                            int fl[2] = {f0, f1}, rel[2] = {r0, r1};
                            run_mx(2, fl, rel, rounds);
                        });
                    }
                }
    // release through a thread pool: the next owner continues on a pool worker
    for (int f1 = 0; f1 < 2; f1++)
        for (int r1 = 0; r1 < 5; r1++) {
            if (r1 == AWT && f1 != CO) continue;
            std::string name = std::string("mxpool_co-") + fl_names[f1] + "_pool-" + rl_names[r1];
            vrt::add(name, [=] {
                int fl[2] = {CO, f1}, rel[2] = {POOL, r1};
                run_mx(2, fl, rel, 1);
            });
        }
    // ownership objects: assignment over a held ownership, and one shared ownership slot used by every owner
    for (int f0 = 0; f0 < 2; f0++)
        for (int f1 = f0; f1 < 2; f1++)
            for (int st = ASSIGN; st <= SLOT; st++)
                for (int other = 0; other < 2; other++) {
                    std::string name = std::string("mxown_") + fl_names[f0] + "-" + fl_names[f1] + "_" + rl_names[st] + "-" + (other ? "dis" : rl_names[st]);
                    vrt::add(name, [=] {
                        int fl[2] = {f0, f1}, rel[2] = {st, other ? DIS : st};
                        run_mx(2, fl, rel, 1);
                    });
                }
    for (int st = ASSIGN; st <= SLOT; st++)
        vrt::add(std::string("mxown3_bl-bl-co_") + rl_names[st], [=] {
            int fl[3] = {BL, BL, CO}, rel[3] = {st, st, st};
            run_mx(3, fl, rel, 1);
        });
    // callback requests against every other flavour
    for (int f1 = 0; f1 < 4; f1++)
        for (int r0 : {DIS, DTOR, SLOT})
            for (int r1 : {DIS, DTOR}) {
                if (f1 == TRY && r1 != DIS) continue;
                std::string name = std::string("mxcb_cb-") + fl_names[f1] + "_" + rl_names[r0] + "-" + rl_names[r1];
                vrt::add(name, [=] {
                    int fl[2] = {CB, f1}, rel[2] = {r0, r1};
                    run_mx(2, fl, rel, 1);
                });
            }
    vrt::add("mxcb3_cb-bl-co", [] {
        int fl[3] = {CB, BL, CO}, rel[3] = {DIS, DTOR, DIS};
        run_mx(3, fl, rel, 1);
    });
    vrt::add("mxcb3_cb-cb-cb", [] {
        int fl[3] = {CB, CB, CB}, rel[3] = {DIS, DIS, DTOR};
        run_mx(3, fl, rel, 1);
    });
    vrt::add("mxpool_co-co-co", [] {
        int fl[3] = {CO, CO, CO}, rel[3] = {POOL, DIS, POOL};
        run_mx(3, fl, rel, 1);
    });
    // three and four contenders, one round
    for (int K = 3; K <= 4; K++)
        for (int mixf = 0; mixf < 4; mixf++)
            for (int mixr = 0; mixr < 4; mixr++) {
                // flavour mixes: all co / co,co,bl(,bl) / co,bl,try(,co) / all bl
                static const int FM[4][4] = {{CO, CO, CO, CO}, {CO, CO, BL, BL}, {CO, BL, TRY, CO}, {BL, BL, BL, BL}};
                static const int RM[4][4] = {{DIS, DIS, DIS, DIS}, {DTOR, DIS, DTOR, DIS}, {AWT, DIS, DTOR, AWT}, {MOVE, DIS, MOVE, DTOR}};
                bool ok = true;
                for (int i = 0; i < K; i++)
                    if (RM[mixr][i] == AWT && FM[mixf][i] != CO) ok = false;
                if (!ok) continue;
                std::string name = "mx" + std::to_string(K) + "_f" + std::to_string(mixf) + "_r" + std::to_string(mixr);
                vrt::add(name, [=] {
                    int fl[4], rel[4];
                    for (int i = 0; i < 4; i++) {
                        fl[i] = FM[mixf][i];
                        rel[i] = RM[mixr][i];
                    }
                    run_mx(K, fl, rel, 1);
                });
            }
}

}  // namespace

int main(int argc, char **argv) { return vrt_main(argc, argv); }
