// C20 (sequential part) - the core synchronisation primitives never allocate.
// Program families over future/promise (all waiter kinds that do not need a second thread), coroutine mutex,
// suspend points with up to three ready coroutines, scheduling programs (pause / resolve / await / lock / release)
// and synchronous generator stepping, with every coroutine frame placed through a non-heap storage policy and run
// inside a measured region: the number of global operator new calls in the region must be 0.
// One source is classified and not charged: 512-byte node recycling of the thread-local ready queue (std::deque).
#include <cocls/future.h>
#include <cocls/async.h>
#include <cocls/coro_storage.h>
#include <cocls/generator.h>
#include <cocls/mutex.h>
#include <cocls/with_allocator.h>
#include <cocls/callback_awaiter.h>

#include <memory>
#include <pthread.h>
#include <sstream>

#include "../engine/seqx/seqx.h"
#include "common_seq.h"

namespace {

struct TestError : std::exception {};
using Store = cocls::reusable_storage;
template <typename T>
using Co = cocls::with_allocator<Store, cocls::async<T>>;

// measured region ------------------------------------------------------------------------------
static uint64_t g_region_start, g_region_start512, g_queue_nodes_total;
static void *g_region_qnode;
// The thread's ready queue is a std::deque: appending allocates a 512-byte node once per 64 queued resumptions, wherever
// its cursor happens to stand. That recycling belongs to the queue, not to the primitives under test - but only that:
// before a region the (empty) queue's cursor is moved to the start of a node, so that the next 63 appended resumptions
// cannot need a node, and a 512-byte allocation inside the region is charged like any other unless the queue's end has
// really moved on to another node.
// (The queue is reached by member name and by the layout of libstdc++'s deque; if either is not what it was - a renamed member, another
// container - the adjustment is skipped and every 512-byte allocation is left out of the count instead: weaker, never an alarm.)
template <typename QI>
static void *queue_align_and_end_node(QI &qi, bool align) {
    if constexpr (requires { qi._queue._M_impl._M_start._M_cur; qi._queue._M_impl._M_finish._M_node; qi._queue.push_back(std::coroutine_handle<>()); qi._queue.pop_front(); }) {
        auto &q = qi._queue;
        if (align) {
            if (cocls::coro_queue::is_active() || !q.empty()) return nullptr;
            int guard = 0;
            while (q._M_impl._M_start._M_cur != q._M_impl._M_start._M_first && guard++ < 200) {
                q.push_back(std::coroutine_handle<>());
                q.pop_front();
            }
        }
        return (void *)q._M_impl._M_finish._M_node;
    } else
        return nullptr;
}
static void region_begin() {
    g_region_qnode = queue_align_and_end_node(cocls::coro_queue::queue_impl::instance, true);
    g_region_start = seqx::news();
    g_region_start512 = seqx::g_news_512;
}
static uint64_t region_allocs() {
    uint64_t nodes = seqx::g_news_512 - g_region_start512;
    void *end_node = queue_align_and_end_node(cocls::coro_queue::queue_impl::instance, false);
    if (g_region_qnode && end_node && end_node == g_region_qnode) nodes = 0;  // the queue's end never left its node
    g_queue_nodes_total += nodes;
    return seqx::news() - g_region_start - nodes;
}

struct Big {
    long a[4] = {1, 2, 3, 4};
};

// ------------------------------------------------------------------------------------------------ family F1: future/promise
template <typename T>
static Co<void> f1_waiter(Store &, cocls::future<T> &f, int *seen) {
    try {
        if constexpr (std::is_void_v<T>)
            co_await f;
        else {
            T &v = co_await f;
            (void)v;
        }
        *seen = 1;
    } catch (const TestError &) {
        *seen = 2;
    } catch (const cocls::await_canceled_exception &) {
        *seen = 3;
    }
}
template <typename T>
static Co<void> f1_hasv_waiter(Store &, cocls::future<T> &f, int *seen) {
    bool hv = co_await f.has_value();
    *seen = hv ? 1 : 3;
}
struct CbAw : cocls::awaiter {
    int fired = 0;
    CbAw() {
        set_resume_fn([](cocls::awaiter *me, void *) noexcept -> cocls::suspend_point<void> {
            static_cast<CbAw *>(me)->fired++;
            return {};
        });
    }
};

template <typename T>
static void f1_case(seqx::Runner &R, const char *tname, int nco, int nhasv, int extra, int outcome, bool await_sp, std::exception_ptr &prebuilt) {
    // extra waiters that are not coroutines: 0 none, 1 callback awaiter, 2 one sync_awaiter (what a thread blocked in
    // wait()/sync() registers), 3 two sync_awaiters, 4 callback + two sync_awaiters. They do not travel in the suspend point.
    bool cb = extra == 1 || extra == 4;
    int nsync = extra == 2 ? 1 : extra >= 3 ? 2 : 0;
    std::ostringstream d;
    d << "F1 future<" << tname << "> coroutine_waiters=" << nco << " has_value_waiters=" << nhasv << " callback_awaiter=" << cb << " sync_awaiters=" << nsync << " outcome=" << outcome << " resolve_in_coroutine=" << await_sp;
    if (!R.next_case_named(d.str())) return;
    R.begin(d.str());
    static Store stores[8];
    for (auto &s : stores) s.alloc(2048);  // warm-up outside the region: the frames' memory is the user's
    int seen[8] = {0};
    region_begin();
    {
        cocls::future<T> f;
        cocls::promise<T> p = f.get_promise();
        CbAw cbaw;
        int k = 0;
        for (int i = 0; i < nco; i++, k++) f1_waiter<T>(stores[k], f, &seen[k]).detach();
        for (int i = 0; i < nhasv; i++, k++) f1_hasv_waiter<T>(stores[k], f, &seen[k]).detach();
        if (cb) {
            cocls::co_awaiter<cocls::future<T>> aw(f);
            aw.subscribe(&cbaw);
        }
        cocls::sync_awaiter sa[2];
        for (int i = 0; i < nsync; i++) {
            cocls::co_awaiter<cocls::future<T>> aw(f);
            aw.subscribe(&sa[i]);
        }
        switch (outcome) {
            case 0:
                if constexpr (std::is_void_v<T>)
                    p();
                else
                    p(T());
                break;
            case 1: p(prebuilt); break;
            case 2: p(cocls::drop); break;
            default: {
                cocls::promise<T> q(std::move(p));
                break;  // destruction resolves
            }
        }
        // blocking styles on a resolved future
        f.sync();
        bool hv = f.has_value();
        (void)hv;
        if (cb && cbaw.fired != 1) R.fail("noalloc/harness", "callback awaiter fired %d times", cbaw.fired);
        for (int i = 0; i < nsync; i++)
            if (!sa[i].flag.load()) R.fail("noalloc/harness", "sync_awaiter %d not woken", i);
        for (int i = 0; i < k; i++)
            if (!seen[i]) R.fail("noalloc/harness", "waiter %d not released", i);
    }
    uint64_t n = region_allocs();
    if (n) R.fail("noalloc/future-promise", "%lu dynamic allocations while creating, awaiting, resolving and destroying a future/promise pair", (unsigned long)n);
    R.step((uint64_t)(nco + nhasv + cb + 1));
    R.state(seqx::hash_str(d.str()));
    R.outcome(n);
    R.end(true);
}

// ------------------------------------------------------------------------------------------------ family F2/F5: scheduling programs
enum SK { PAUSE = 0, RESD, RESA, AW, LOCK, RELD, RELA, NSK };
static const char *sk_names[] = {"pause", "resolve/discard", "resolve/await", "await", "lock", "release/discard", "release/await"};
struct Env {
    cocls::future<int> fut;
    cocls::promise<int> prom;
    cocls::mutex mx;
    std::vector<std::vector<int>> scripts;
    int finished = 0;
};
static Co<void> actor(Store &, Env &e, int id) {
    cocls::mutex::ownership own;
    for (int st : e.scripts[(size_t)id]) {
        switch (st) {
            case PAUSE: co_await cocls::pause(); break;
            case RESD: e.prom(7); break;
            case RESA: co_await e.prom(7); break;
            case AW: co_await e.fut; break;
            case LOCK: own = co_await e.mx.lock(); break;
            case RELD: own.release(); break;
            case RELA: co_await own.release(); break;
        }
    }
    e.finished++;
}
static Co<void> starter(Store &, Env &e, Store *stores, int n) {
    // all actors are started from inside a running coroutine: everything they ready goes through the ready queue
    for (int i = 0; i < n; i++) actor(stores[i], e, i).detach();
    co_return;
}

static void prog_case(seqx::Runner &R, const std::vector<std::vector<int>> &scripts) {
    std::ostringstream d;
    d << "F5 program ";
    for (size_t a = 0; a < scripts.size(); a++) {
        d << "c" << a << "=[";
        for (size_t i = 0; i < scripts[a].size(); i++) d << (i ? "," : "") << sk_names[scripts[a][i]];
        d << "] ";
    }
    if (!R.next_case_named(d.str())) return;
    R.begin(d.str());
    static Store stores[5];
    for (auto &s : stores) s.alloc(2048);
    static Env *env;
    {
        seqx::NoCount nc;  // the script vectors are harness data
        env = new Env();
        env->scripts = scripts;
    }
    int n = (int)scripts.size();
    uint64_t nodes_before = 0;
    (void)nodes_before;
    region_begin();
    {
        env->prom = env->fut.get_promise();
        starter(stores[4], *env, stores, n).detach();
        // epilogue from normal code: complete whatever is pending
        env->prom(9);
    }
    uint64_t allocs = region_allocs();
    if (env->finished != n) R.fail("noalloc/harness", "%d of %d actors finished", env->finished, n);
    // one resolution readies every coroutine awaiting the future; the suspend point carries three of them inline
    // (the property's stated capacity), so only programs with at most three awaiting actors are judged
    int awaiting_actors = 0;
    for (auto &sc : scripts) {
        bool has = false;
        for (int st : sc) has |= st == AW;
        awaiting_actors += has;
    }
    if (allocs && awaiting_actors <= 3) R.fail("noalloc/scheduling-program", "%lu dynamic allocations in a program of future/promise, mutex and pause steps", (unsigned long)allocs);
    {
        seqx::NoCount nc;
        if (env->finished == n) delete env;
    }
    R.step((uint64_t)n);
    R.state(seqx::hash_str(d.str()));
    R.outcome(allocs);
    R.end(true);
}

static void gen_scripts(seqx::Runner &R, int N, int maxlen, std::vector<std::vector<int>> &scripts, int a, bool holds) {
    if (R.stop()) return;
    if (a == N) {
        prog_case(R, scripts);
        return;
    }
    // close this actor's script
    {
        bool pushed = false;
        if (holds) {
            scripts[(size_t)a].push_back(RELD);
            pushed = true;
        }
        gen_scripts(R, N, maxlen, scripts, a + 1, false);
        if (pushed) scripts[(size_t)a].pop_back();
    }
    if ((int)scripts[(size_t)a].size() >= maxlen) return;
    for (int k = 0; k < NSK; k++) {
        if (k == LOCK && holds) continue;
        if ((k == RELD || k == RELA) && !holds) continue;
        scripts[(size_t)a].push_back(k);
        gen_scripts(R, N, maxlen, scripts, a, k == LOCK ? true : (k == RELD || k == RELA) ? false : holds);
        scripts[(size_t)a].pop_back();
    }
}

// ------------------------------------------------------------------------------------------------ family F3: suspend points
static Co<void> sp_waiter(Store &, cocls::future<int> &f, int *seen) {
    co_await f;
    ++*seen;
}
// disposal 4: the suspend point is awaited by a coroutine - one ready coroutine is resumed by symmetric transfer, the
// others and the awaiting coroutine itself go through the thread's ready queue
static Co<void> sp_resolver(Store &, cocls::promise<int> &p, int *resolved) {
    bool ok = co_await p(1);
    if (ok) ++*resolved;
}
static void sp_case(seqx::Runner &R, int nhandles, int how) {
    std::ostringstream d;
    d << "F3 suspend_point handles=" << nhandles << " disposal=" << how;
    if (!R.next_case_named(d.str())) return;
    R.begin(d.str());
    static Store stores[6];
    for (auto &s : stores) s.alloc(2048);
    int seen = 0;
    region_begin();
    {
        cocls::future<int> f;
        cocls::promise<int> p = f.get_promise();
        for (int i = 0; i < nhandles; i++) sp_waiter(stores[i], f, &seen).detach();
        int resolved = 0;
        if (how == 4) {
            sp_resolver(stores[5], p, &resolved).detach();
            if (resolved != 1) R.fail("noalloc/harness", "the coroutine awaiting the suspend point did not finish");
        }
        cocls::suspend_point<bool> sp = how == 4 ? cocls::suspend_point<bool>(true) : p(1);  // carries all waiting coroutines
        switch (how) {
            case 0: break;  // plain destruction
            case 1: {
                cocls::suspend_point<void> moved(std::move(sp));
                break;
            }
            case 2: {
                cocls::suspend_point<void> other;
                other << std::move(sp);
                other.clear();
                break;
            }
            case 3:
                while (!sp.empty()) sp.pop().resume();
                break;
        }
    }
    uint64_t n = region_allocs();
    if (seen != nhandles) R.fail("noalloc/harness", "%d of %d coroutines resumed", seen, nhandles);
    if (nhandles <= 3 && n) R.fail("noalloc/suspend-point", "%lu dynamic allocations for a suspend point carrying %d ready coroutines (inline capacity is three)", (unsigned long)n, nhandles);
    R.step((uint64_t)nhandles);
    R.state(seqx::hash_str(d.str()));
    R.outcome(n);
    R.end(true);
}

// ------------------------------------------------------------------------------------------------ family F4: generator stepping
static cocls::generator<int> counting(int n) {
    for (int i = 1; i <= n; i++) co_yield i;
}
static void gen_case(seqx::Runner &R, int style) {
    std::ostringstream d;
    d << "F4 generator stepping style=" << style;
    if (!R.next_case_named(d.str())) return;
    R.begin(d.str());
    auto g = counting(5);  // the generator frame is the user's allocation: outside the region
    int sum = 0;
    if (style >= 3) {
        // the same three styles on a thread that has never run a coroutine: a synchronous generator is stepped by plain
        // resume() and does not need the thread's ready queue, which such a thread has not even constructed (its
        // construction allocates). Everything is charged here, 512-byte blocks included.
        struct Arg {
            cocls::generator<int> *g;
            int style, sum;
            uint64_t n;
        } arg{&g, style - 3, 0, 0};
        pthread_t th;
        auto body = +[](void *p) -> void * {
            Arg &a = *static_cast<Arg *>(p);
            uint64_t before = seqx::news();
            switch (a.style) {
                case 0:
                    for (;;) {
                        bool more = a.g->next();
                        if (!more) break;
                        a.sum += a.g->value();
                    }
                    break;
                case 1:
                    for (int &v : *a.g) a.sum += v;
                    break;
                case 2:
                    for (int i = 0; i < 5; i++) {
                        cocls::future<int> f = (*a.g)();
                        a.sum += f.wait();
                    }
                    break;
            }
            a.n = seqx::news() - before;
            return nullptr;
        };
        uint64_t n;
        {
            seqx::NoCount nc;  // the thread itself (stack, TLS block) is the harness's
            pthread_create(&th, nullptr, body, &arg);
            pthread_join(th, nullptr);
            n = arg.n;
        }
        if (arg.sum != 15) R.fail("noalloc/harness", "generator sum %d", arg.sum);
        if (n) R.fail("noalloc/generator-stepping-fresh-thread", "%lu dynamic allocations while stepping a synchronous generator on a thread that never ran a coroutine", (unsigned long)n);
        R.step(5);
        R.state(seqx::hash_str(d.str()));
        R.outcome(n);
        R.end(true);
        return;
    }
    region_begin();
    {
        switch (style) {
            case 0:
                for (;;) {
                    bool more = g.next();
                    if (!more) break;
                    sum += g.value();
                }
                break;
            case 1:
                for (int &v : g) sum += v;
                break;
            case 2:
                for (int i = 0; i < 5; i++) {
                    cocls::future<int> f = g();
                    sum += f.wait();
                }
                break;
        }
    }
    uint64_t n = region_allocs();
    if (sum != 15) R.fail("noalloc/harness", "generator sum %d", sum);
    if (n) R.fail("noalloc/generator-stepping", "%lu dynamic allocations while stepping a synchronous generator", (unsigned long)n);
    R.step(5);
    R.state(seqx::hash_str(d.str()));
    R.outcome(n);
    R.end(true);
}

// mutex blocking / try_lock paths (F2)
static void mutex_case(seqx::Runner &R) {
    if (!R.next_case_named("F2 mutex try_lock / blocking lock on a free mutex / ownership move")) return;
    R.begin("F2 mutex try_lock / blocking lock on a free mutex / ownership move");
    region_begin();
    {
        cocls::mutex mx;
        {
            auto o = mx.try_lock();
            auto o2 = mx.try_lock();
            if (!o || o2) R.fail("noalloc/harness", "try_lock results");
            cocls::mutex::ownership moved = std::move(o);
            moved.release();
        }
        {
            cocls::mutex::ownership o = mx.lock().wait();
            if (!o) R.fail("noalloc/harness", "blocking lock on a free mutex");
        }
    }
    uint64_t n = region_allocs();
    if (n) R.fail("noalloc/mutex", "%lu dynamic allocations in try_lock / blocking lock / release", (unsigned long)n);
    R.state(0x77);
    R.outcome(n);
    R.end(true);
}

// ------------------------------------------------------------------------------------------------ family F6: callback await on the stack
// callback_await_alloc<stack_storage, ...>: the frame of the helper coroutine lives in caller-provided (stack) memory once
// the shared size state has learned the frame size in one warm-up round - "those too disappear under a non-heap policy"
struct Ctx96 {  // what a callback that carries its request context by value holds
    long words[12];
};
static void cbawait_stack_case(seqx::Runner &R, int outcome, size_t initial_state, bool big_closure) {
    std::ostringstream d;
    d << "F6 callback_await on stack_storage outcome=" << outcome << " initial_state=" << initial_state << (big_closure ? " callback=96-byte-closure" : "");
    if (!R.next_case_named(d.str())) return;
    R.begin(d.str());
    static char buffer[4096];
    std::exception_ptr prebuilt = std::make_exception_ptr(TestError());
    size_t state = initial_state;
    uint64_t per_round[3] = {0, 0, 0};
    for (int round = 0; round < 3; round++) {
        int fired = 0;
        region_begin();
        {
            cocls::future<int> f;
            cocls::promise<int> p = f.get_promise();
            cocls::stack_storage storage(state);
            if ((size_t)storage > sizeof buffer) {
                R.fail("noalloc/harness", "stack_storage asks for %zu bytes", (size_t)storage);
                break;
            }
            storage = buffer;
            if (big_closure) {
                Ctx96 ctx{};
                ctx.words[11] = 1;
                cocls::callback_await_alloc<cocls::stack_storage, cocls::future<int> &>(
                    storage, [&fired, ctx](cocls::await_result<int> r) { fired += r ? (int)ctx.words[11] : 2; }, f);
            } else
                cocls::callback_await_alloc<cocls::stack_storage, cocls::future<int> &>(
                    storage, [&fired](cocls::await_result<int> r) { fired += r ? 1 : 2; }, f);
            switch (outcome) {
                case 0: p(5); break;
                case 1: p(prebuilt); break;
                default: p(cocls::drop); break;
            }
        }
        per_round[round] = region_allocs();
        if (fired != (outcome == 0 ? 1 : 2)) R.fail("noalloc/harness", "callback fired=%d in round %d", fired, round);
        R.step();
    }
    // round 0 may fall back to the heap once (and teaches the shared state); afterwards nothing may be allocated
    if (per_round[0] > 1) R.fail("noalloc/callback-await-stack", "%lu allocations in the learning round", (unsigned long)per_round[0]);
    if (per_round[1] || per_round[2])
        R.fail("noalloc/callback-await-stack", "callback_await on a stack_storage still allocates after the learning round: %lu, %lu (shared state %zu)", (unsigned long)per_round[1],
               (unsigned long)per_round[2], state);
    R.state(seqx::hash_str(d.str()));
    R.outcome(per_round[0]);
    R.end(true);
}

// ------------------------------------------------------------------------------------------------ family F7: moved frame storage
// the non-heap policy object itself may be moved (its owner relocated): the warm block moves with it, frames created in
// the new object still cost nothing
static void moved_store_case(seqx::Runner &R, int how) {
    std::ostringstream d;
    d << "F7 frame storage moved by " << (how ? "move-assignment" : "move-construction") << " between two programs";
    if (!R.next_case_named(d.str())) return;
    R.begin(d.str());
    uint64_t n = 0;
    {
        Store a, c;
        a.alloc(2048);
        int seen = 0;
        {
            cocls::future<int> f;
            cocls::promise<int> p = f.get_promise();
            f1_waiter<int>(a, f, &seen).detach();
            p(1);
        }
        Store b(how ? Store() : std::move(a));
        if (how) b = std::move(a);
        region_begin();
        {
            cocls::future<int> f;
            cocls::promise<int> p = f.get_promise();
            f1_waiter<int>(b, f, &seen).detach();
            p(1);
        }
        n = region_allocs();
        if (seen != 1) R.fail("noalloc/harness", "waiter not released");
        (void)c;
    }
    if (n) R.fail("noalloc/moved-storage", "%lu dynamic allocations for a frame placed in a warm storage object after the object was moved", (unsigned long)n);
    R.step();
    R.state(seqx::hash_str(d.str()));
    R.outcome(n);
    R.end(true);
}

// ------------------------------------------------------------------------------------------------ family F8: frames in a caller's buffer
using BufStore = cocls::reusable_buffer_storage<std::vector<char>>;
static cocls::with_allocator<BufStore, cocls::async<void>> buf_waiter(BufStore &, cocls::future<int> &f, int *seen) {
    co_await f;
    ++*seen;
}
static void buffer_store_case(seqx::Runner &R) {
    std::string d = "F8 frames in a caller-provided buffer (reusable_buffer_storage), adaptor created per call";
    if (!R.next_case_named(d)) return;
    R.begin(d);
    uint64_t n = 0;
    {
        std::vector<char> buf;
        int seen = 0;
        auto round = [&] {
            BufStore st(buf);  // a fresh adaptor over the long-lived buffer
            cocls::future<int> f;
            cocls::promise<int> p = f.get_promise();
            buf_waiter(st, f, &seen).detach();
            p(1);
        };
        round();  // warm-up: the buffer grows once
        region_begin();
        round();
        round();
        n = region_allocs();
        if (seen != 3) R.fail("noalloc/harness", "%d of 3 waiters released", seen);
    }
    if (n) R.fail("noalloc/buffer-storage", "%lu dynamic allocations for frames placed in an already large enough caller buffer", (unsigned long)n);
    R.step();
    R.state(seqx::hash_str(d));
    R.outcome(n);
    R.end(true);
}

// ------------------------------------------------------------------------------------------------ family F10: thread-safe reusable storage
// reusable_storage_mtsafe: a frame created while the block is taken goes to the heap (charged to the overlap, not judged); once
// every frame is gone the block is free again and the next frame - and the one after it - must not allocate
static cocls::with_allocator<cocls::reusable_storage_mtsafe, cocls::async<void>> mts_coro(cocls::reusable_storage_mtsafe &, cocls::future<int> &gate, int *done) {
    int v = co_await gate;
    *done += v;
}
static void mtsafe_overlap_case(seqx::Runner &R, int finish_order, int with_third) {
    std::ostringstream d;
    d << "F10 reusable_storage_mtsafe overlap then sequential finish_order=" << finish_order << " third_overlapping_frame=" << with_third;
    if (!R.next_case_named(d.str())) return;
    R.begin(d.str());
    {
        cocls::reusable_storage_mtsafe st;
        int done = 0;
        {
            // warm-up: one frame alone
            cocls::future<int> g;
            auto p = g.get_promise();
            mts_coro(st, g, &done).detach();
            p(1);
        }
        {
            cocls::future<int> g[3];
            cocls::promise<int> p[3];
            int n = with_third ? 3 : 2;
            for (int i = 0; i < n; i++) {
                p[i] = g[i].get_promise();
                mts_coro(st, g[i], &done).detach();  // the second and third overlap the first: heap fallback allowed
            }
            if (finish_order == 0)
                for (int i = 0; i < n; i++) p[i](1);
            else
                for (int i = n - 1; i >= 0; i--) p[i](1);
        }
        uint64_t per_round[2];
        for (int round = 0; round < 2; round++) {
            cocls::future<int> g;
            auto p = g.get_promise();
            region_begin();
            mts_coro(st, g, &done).detach();
            p(1);
            per_round[round] = region_allocs();
            R.step();
        }
        if (per_round[0] || per_round[1])
            R.fail("noalloc/mtsafe-storage-after-overlap", "frames created one at a time in a reusable_storage_mtsafe whose block is free allocate (%lu, %lu) after an earlier overlapping use",
                   (unsigned long)per_round[0], (unsigned long)per_round[1]);
        if (done != (with_third ? 6 : 5)) R.fail("noalloc/harness", "coroutines completed: %d", done);
    }
    R.state(seqx::hash_str(d.str()));
    R.outcome(0);
    R.end(true);
}

// ------------------------------------------------------------------------------------------------ family F11: a long run from ordinary code
// one region spans several hundred wake-ups issued from ordinary code (a promise resolved, a mutex handed over): none of them may
// allocate - including the bookkeeping a wake-up from a plain thread goes through (a queue that is only touched when a coroutine
// is really queued never moves its cursor here)
static Co<void> f11_lock_waiter(Store &, cocls::mutex &mx, int *seen) {
    auto own = co_await mx.lock();
    ++*seen;
}
static void long_run_case(seqx::Runner &R) {
    const char *nm = "F11 300 promise resolutions and 300 mutex hand-overs from ordinary code in one region";
    if (!R.next_case_named(nm)) return;
    R.begin(nm);
    {
        Store st;
        cocls::mutex mx;
        int seen = 0, locked = 0;
        auto round = [&] {
            {
                cocls::future<int> f;
                cocls::promise<int> p = f.get_promise();
                f1_waiter<int>(st, f, &seen).detach();
                p(5);
            }
            {
                cocls::mutex::ownership own = mx.try_lock();
                f11_lock_waiter(st, mx, &locked).detach();  // parks behind the owner
                own.release();                              // hand-over resumes it from ordinary code
            }
        };
        round();  // warm-up: the storage learns the frame size
        region_begin();
        for (int i = 0; i < 300; i++) round();
        // every allocation counts here, 512-byte blocks included: ordinary code that wakes one coroutine at a time gives the ready
        // queue nothing to hold, so the allowance for the queue's own node recycling (region_allocs) does not apply
        uint64_t n = seqx::news() - g_region_start;
        if (n) R.fail("noalloc/long-run-from-ordinary-code", "%lu dynamic allocations in 300 rounds of resolving a promise and handing a mutex over from ordinary code", (unsigned long)n);
        if (locked != 301) R.fail("noalloc/harness", "lock waiters completed: %d", locked);
        R.step(600);
    }
    R.state(seqx::hash_str(nm));
    R.outcome(0);
    R.end(true);
}

// ------------------------------------------------------------------------------------------------ family F12: create_suspend_point
// coro_queue::create_suspend_point(fn): the coroutines fn makes ready (1..3: what a suspend point holds inline) are collected into
// the returned suspend point without any allocation, from ordinary code and from inside a coroutine
static Co<void> f12_inside(Store &, cocls::promise<int> *p, int n, int *done) {
    cocls::suspend_point<void> sp = cocls::coro_queue::create_suspend_point([&] {
        for (int i = 0; i < n; i++) p[i](5);
    });
    co_await sp;
    ++*done;
}
static void csp_case(seqx::Runner &R, int nready, bool from_coroutine) {
    std::ostringstream d;
    d << "F12 create_suspend_point ready=" << nready << (from_coroutine ? " called from a coroutine" : " called from ordinary code");
    if (!R.next_case_named(d.str())) return;
    R.begin(d.str());
    {
        Store st[4];
        uint64_t per_round[3];
        for (int round = 0; round < 3; round++) {
            cocls::future<int> f[3];
            cocls::promise<int> p[3];
            int seen[3] = {0, 0, 0}, done = 0;
            for (int i = 0; i < nready; i++) {
                p[i] = f[i].get_promise();
                f1_waiter<int>(st[i], f[i], &seen[i]).detach();
            }
            region_begin();
            if (from_coroutine)
                f12_inside(st[3], p, nready, &done).detach();
            else {
                cocls::suspend_point<void> sp = cocls::coro_queue::create_suspend_point([&] {
                    for (int i = 0; i < nready; i++) p[i](5);
                });
                sp.clear();
            }
            per_round[round] = region_allocs();
            for (int i = 0; i < nready; i++)
                if (seen[i] != 1) R.fail("noalloc/harness", "waiter %d not resumed with the value (state %d)", i, seen[i]);
            R.step();
        }
        // round 0 is the warm-up of the frame storages
        if (per_round[1] || per_round[2])
            R.fail("noalloc/create-suspend-point", "create_suspend_point collecting %d ready coroutine(s) allocates: %lu, %lu", nready, (unsigned long)per_round[1], (unsigned long)per_round[2]);
    }
    R.state(seqx::hash_str(d.str()));
    R.outcome(0);
    R.end(true);
}

// ------------------------------------------------------------------------------------------------ family F9: callback promise in a storage
// make_promise<T>(fn, storage): the callback future lives in the storage block (the frame-placement path without a coroutine)
static void make_promise_storage_case(seqx::Runner &R, int outcome) {
    std::ostringstream d;
    d << "F9 make_promise(fn, storage) outcome=" << outcome;
    if (!R.next_case_named(d.str())) return;
    R.begin(d.str());
    uint64_t n = 0;
    int fired = 0;
    std::exception_ptr prebuilt = std::make_exception_ptr(TestError());
    {
        Store st;
        st.alloc(256);  // warm
        region_begin();
        for (int round = 0; round < 2; round++) {
            cocls::promise<int> p = cocls::make_promise<int>([&fired](cocls::future<int> &) { fired++; }, st);
            switch (outcome) {
                case 0: p(5); break;
                case 1: p(prebuilt); break;
                default: p(cocls::drop); break;
            }
        }
        n = region_allocs();
    }
    if (fired != 2) R.fail("noalloc/harness", "callback fired %d times in two rounds", fired);
    if (n) R.fail("noalloc/make-promise-storage", "%lu dynamic allocations for callback promises placed in a warm storage", (unsigned long)n);
    R.step();
    R.state(seqx::hash_str(d.str()));
    R.outcome(n);
    R.end(true);
}

}  // namespace

void seqx_run(seqx::Runner &R, const std::string &tier) {
    seq_warmup();
    // the ready queue's first node and map exist now (see common_seq.h); node recycling: see region_begin()
    std::exception_ptr prebuilt = std::make_exception_ptr(TestError());
    for (int nco = 0; nco <= 3; nco++)
        for (int nh = 0; nh + nco <= 3; nh++)  // coroutine-type waiters travel in the suspend point: inline capacity three
            for (int cb = 0; cb < 5; cb++)
                for (int out = 0; out < 4; out++)
                    for (int ty = 0; ty < 3; ty++) {
                        if (R.stop()) return;
                        if (ty == 0)
                            f1_case<int>(R, "int", nco, nh, cb, out, false, prebuilt);
                        else if (ty == 1)
                            f1_case<void>(R, "void", nco, nh, cb, out, false, prebuilt);
                        else
                            f1_case<Big>(R, "struct32", nco, nh, cb, out, false, prebuilt);
                    }
    mutex_case(R);
    long_run_case(R);
    for (int n = 1; n <= 3; n++)
        for (int fc = 0; fc < 2; fc++) csp_case(R, n, fc != 0);
    buffer_store_case(R);
    for (int out = 0; out < 3; out++) make_promise_storage_case(R, out);
    moved_store_case(R, 0);
    moved_store_case(R, 1);
    for (int out = 0; out < 3; out++)
        for (size_t init : {(size_t)0, (size_t)32, (size_t)4000})
            for (int big = 0; big < 2; big++) cbawait_stack_case(R, out, init, big != 0);
    for (int order = 0; order < 2; order++)
        for (int third = 0; third < 2; third++) mtsafe_overlap_case(R, order, third);
    for (int n = 0; n <= 4; n++)
        for (int how = 0; how < 5; how++)
            sp_case(R, n, how);
    for (int st = 0; st < 6; st++)
        gen_case(R, st);
    bool q = tier == "quick";
    {
        std::vector<std::vector<int>> scripts(2);
        gen_scripts(R, 2, q ? 3 : 4, scripts, 0, false);
    }
    {
        std::vector<std::vector<int>> scripts(3);
        gen_scripts(R, 3, q ? 2 : 3, scripts, 0, false);
    }
    if (!q) {
        std::vector<std::vector<int>> scripts(4);
        gen_scripts(R, 4, 2, scripts, 0, false);
    }
}

void seqx_replay(seqx::Runner &R, const std::string &c) {
    // cases are not parsed back from text: the enumeration is re-run and only the matching case is executed
    R.replay_want = c;
    seqx_run(R, "thorough");
}

SEQX_MAIN()
