// C05 - coroutine-mode scheduling: run-to-suspension, FIFO ready queue, full drain.
// All programs of N scripted coroutines over a step alphabet (pause, promise resolution with discarded / awaited suspend
// point, future await, mutex lock / release, queue push / pop, detach of a child) run on the real library. Every
// event is checked online against a reference scheduler that encodes exactly what the property states; where the
// property leaves the order open (coroutines readied by the same step, which of them gets the direct transfer) the
// reference accepts any.
#include <cocls/future.h>
#include <cocls/async.h>
#include <cocls/mutex.h>
#include <cocls/queue.h>

#include <deque>
#include <functional>
#include <memory>
#include <sstream>

#include "../engine/seqx/seqx.h"
#include "common_seq.h"

namespace {

enum SK { PAUSE = 0, RESD, RESA, AW, LOCK, RELD, RELA, QPUSHD, QPUSHA, QPOP, DETD, DETA, STARTF, COAWAIT, RES2D, CSPD, CSPA, NEST, NSK };
static const char *sk_names[] = {"pause", "resolve/discard", "resolve/await", "await", "lock", "release/discard", "release/await", "push/discard", "push/await", "pop", "detach/discard", "detach/await", "start()", "co_await-child", "resolve-both-merged/discard", "create_suspend_point(resolve)/discard", "create_suspend_point(resolve)/await", "nested-activation(resolve)"};
struct Step {
    int k;
    int arg;  // future index or child id
};
using Script = std::vector<Step>;
constexpr int MAXA = 7;  // the wide wake-up family uses a starter and six waiters

struct Env;
static Env *g_env;

// ---------------------------------------------------------------------------------------------- reference scheduler
struct Ref {
    seqx::Runner *R = nullptr;
    int nactors = 0;
    std::vector<Script> scripts;
    // primitive state
    bool fut_resolved[2] = {false, false};
    std::vector<int> fut_waiters[2];
    int mx_owner = -1;
    std::deque<int> mx_wait;
    int q_items = 0;
    std::deque<int> q_poppers;
    // scheduling state
    std::deque<std::vector<int>> Q;  // batches; members of one batch are mutually unordered
    std::vector<int> D;              // resumed directly from normal code, one after another, before the queue is flushed
    int running = -1;
    // nested contexts, innermost last: {0, a} - a started a child with start() and continues as soon as the child stops
    // running; {1, a} - a is inside install_queue_and_call() and continues when the ready queue has been drained
    std::vector<std::pair<int, int>> ctx;
    bool in_drain() const {
        for (auto &c : ctx)
            if (c.first == 1) return true;
        return false;
    }
    int awaited_by[MAXA] = {-1, -1, -1, -1, -1, -1, -1};  // co_await child: the awaiting coroutine gets a direct transfer when the child finishes
    std::vector<int> allowed;        // who may produce the next event (empty + running>=0: the running one continues)
    bool expect_continue = false;
    int pc[MAXA] = {};      // next step index
    int state[MAXA] = {};   // 0 not started, 1 running/ready, 2 blocked, 3 finished
    bool failed = false;
    bool one_at_a_time = false;  // entry 'resume-by-handle': normal code resumes the readied coroutines one by one through
                                 // coro_queue::resume(h) (what a thread-pool worker does); each call is an outermost activation of its own
    std::string trace;

    void fail(const char *sig, const std::string &msg) {
        if (failed) return;
        failed = true;
        R->fail(sig, "%s | trace: %s", msg.c_str(), trace.c_str());
    }
    void enqueue_batch(std::vector<int> b) {
        if (!b.empty()) Q.push_back(std::move(b));
    }
    // the running coroutine stopped running (blocked, finished or handed over): decide who may run next
    void next_from_queue() {
        running = -1;
        expect_continue = false;
        if (!ctx.empty() && ctx.back().first == 0) {
            // the child begun by start() stopped running: its caller simply continues; the ready queue is not drained
            running = ctx.back().second;
            ctx.pop_back();
            expect_continue = true;
            allowed.clear();
            return;
        }
        if (!D.empty() && !one_at_a_time && !in_drain()) {  // (a nested activation only sees the ready queue)
            allowed = D;
            return;
        }
        while (!Q.empty() && Q.front().empty()) Q.pop_front();
        if (Q.empty()) {
            if (!ctx.empty() && ctx.back().first == 1) {
                // the nested activation has drained everything that was ready: its caller goes on
                running = ctx.back().second;
                ctx.pop_back();
                expect_continue = true;
                allowed.clear();
                return;
            }
            allowed.clear();  // outermost activation returns to normal code
            return;
        }
        allowed = Q.front();
    }
    void take(int a) {  // actor a starts running: remove it from where it was waiting to run
        auto rm = [&](std::vector<int> &v) {
            for (size_t i = 0; i < v.size(); i++)
                if (v[i] == a) {
                    v.erase(v.begin() + (long)i);
                    return true;
                }
            return false;
        };
        if (!rm(D) && !Q.empty()) rm(Q.front());
        running = a;
        allowed.clear();
    }
    // an actor produced a "now running" event (start or after-step)
    void on_run(int a, bool is_start, int step_idx) {
        char b[48];
        snprintf(b, sizeof b, "%s%d%s", is_start ? "S" : "A", a, is_start ? " " : (":" + std::to_string(step_idx) + " ").c_str());
        trace += b;
        if (failed) return;
        if (running == a && expect_continue) {
            expect_continue = false;
            return;  // it simply continued after a non-suspending step
        }
        if (running >= 0) {
            fail("sched/ran-while-other-running", "coroutine " + std::to_string(a) + " ran while coroutine " + std::to_string(running) +
                                                      " had not suspended or finished (a discarded suspend point must not start the readied coroutine)");
            return;
        }
        bool ok = false;
        for (int x : allowed) ok |= x == a;
        if (!ok) {
            std::string al;
            for (int x : allowed) al += std::to_string(x) + " ";
            fail(allowed.empty() ? "sched/resumed-not-ready" : "sched/fifo-order", "coroutine " + std::to_string(a) + " was resumed, the reference allows { " + al + "}");
            return;
        }
        take(a);
    }
    std::vector<int> take_waiters(int k) {
        std::vector<int> s = fut_waiters[k];
        fut_waiters[k].clear();
        return s;
    }
    // actor a is about to execute its step pc[a]; apply the semantics
    void on_step(int a) {
        if (failed) return;
        if (running != a) {
            fail("sched/step-by-non-running", "coroutine " + std::to_string(a) + " executes a step but the reference thinks " + std::to_string(running) + " is running");
            return;
        }
        Step st = scripts[(size_t)a][(size_t)pc[a]];
        pc[a]++;
        trace += std::string("[") + std::to_string(a) + ":" + sk_names[st.k] + "] ";
        auto cont = [&] { expect_continue = true; };
        auto handover_direct = [&](std::vector<int> s) {
            // awaited suspend point: one of s runs now (which one is open), the others are queued, then a
            allowed = s;
            running = -1;
            expect_continue = false;
            pending_rest_then = a;
        };
        switch (st.k) {
            case PAUSE:
                while (!Q.empty() && Q.front().empty()) Q.pop_front();
                if (Q.empty())
                    cont();
                else {
                    Q.push_back({a});
                    // the queue front runs next; D is not consulted (it is not part of the ready queue)
                    running = -1;
                    expect_continue = false;
                    allowed = Q.front();
                    pause_pop = true;
                }
                break;
            case RESD:
            case RESA:
            case CSPD:  // coro_queue::create_suspend_point([&]{ resolve; }): what the resolution readied is taken back out
            case CSPA:  // of the ready queue into a suspend point, which is then discarded / awaited - same outcome as RESD / RESA
            {
                std::vector<int> s;
                if (!fut_resolved[st.arg]) {
                    fut_resolved[st.arg] = true;
                    s = take_waiters(st.arg);
                }
                if (st.k == RESD || st.k == CSPD || s.empty()) {
                    enqueue_batch(s);
                    cont();
                } else
                    handover_direct(s);
                break;
            }
            case NEST: {
                // install_queue_and_call([&]{ resolve; }) from inside a running coroutine: a nested activation, which ends by
                // running everything that is ready (old and new, in queue order) before the call returns
                std::vector<int> s;
                if (!fut_resolved[st.arg]) {
                    fut_resolved[st.arg] = true;
                    s = take_waiters(st.arg);
                }
                enqueue_batch(s);
                ctx.push_back({1, a});
                next_from_queue();
                break;
            }
            case AW:
                if (fut_resolved[st.arg])
                    cont();
                else {
                    fut_waiters[st.arg].push_back(a);
                    state[a] = 2;
                    next_from_queue();
                }
                break;
            case LOCK:
                if (mx_owner < 0) {
                    mx_owner = a;
                    cont();
                } else {
                    mx_wait.push_back(a);
                    state[a] = 2;
                    next_from_queue();
                }
                break;
            case RELD:
            case RELA: {
                std::vector<int> s;
                mx_owner = -1;
                if (!mx_wait.empty()) {
                    mx_owner = mx_wait.front();
                    mx_wait.pop_front();
                    s.push_back(mx_owner);
                }
                if (st.k == RELD || s.empty()) {
                    enqueue_batch(s);
                    cont();
                } else
                    handover_direct(s);
                break;
            }
            case QPUSHD:
            case QPUSHA: {
                std::vector<int> s;
                if (!q_poppers.empty()) {
                    s.push_back(q_poppers.front());
                    q_poppers.pop_front();
                } else
                    q_items++;
                if (st.k == QPUSHD || s.empty()) {
                    enqueue_batch(s);
                    cont();
                } else
                    handover_direct(s);
                break;
            }
            case QPOP:
                if (q_items > 0) {
                    q_items--;
                    cont();
                } else {
                    q_poppers.push_back(a);
                    state[a] = 2;
                    next_from_queue();
                }
                break;
            case DETD:
                state[st.arg] = 1;
                enqueue_batch({st.arg});
                cont();
                break;
            case DETA:
                state[st.arg] = 1;
                handover_direct({st.arg});
                break;
            case STARTF:
                // the child runs at once as a nested activation; nothing from the ready queue may run before the caller continues
                state[st.arg] = 1;
                ctx.push_back({0, a});
                running = -1;
                expect_continue = false;
                allowed = {st.arg};
                break;
            case COAWAIT:
                state[st.arg] = 1;
                awaited_by[st.arg] = a;
                state[a] = 2;
                running = -1;
                expect_continue = false;
                allowed = {st.arg};
                break;
            case RES2D: {
                // two promises resolved, their suspend points merged in that order, the merged point discarded:
                // the waiters of the first future were readied first and must run first
                for (int k = 0; k < 2; k++) {
                    std::vector<int> s;
                    if (!fut_resolved[k]) {
                        fut_resolved[k] = true;
                        s = take_waiters(k);
                    }
                    enqueue_batch(s);
                }
                cont();
                break;
            }
        }
    }
    int pending_rest_then = -1;
    bool pause_pop = false;
    // called when somebody starts running after a hand-over: completes the bookkeeping of handover_direct / pause
    void after_transfer(int who) {
        if (pending_rest_then >= 0) {
            // 'allowed' held the readied set; 'who' took the direct transfer, the rest is queued, then the awaiting one
            std::vector<int> rest;
            for (int x : handover_set)
                if (x != who) rest.push_back(x);
            enqueue_batch(rest);
            Q.push_back({pending_rest_then});
            pending_rest_then = -1;
        }
    }
    std::vector<int> handover_set;
    void on_fin(int a) {
        trace += "F" + std::to_string(a) + " ";
        if (failed) return;
        if (running != a) {
            fail("sched/finish-by-non-running", "coroutine " + std::to_string(a) + " finished but is not the running one");
            return;
        }
        state[a] = 3;
        if (awaited_by[a] >= 0) {
            // symmetric transfer to the coroutine awaiting the result: skips the queue by design
            allowed = {awaited_by[a]};
            awaited_by[a] = -1;
            running = -1;
            expect_continue = false;
            return;
        }
        next_from_queue();
    }
    // normal code: a top-level call returned
    void on_top_return(bool queue_active) {
        trace += "| ";
        if (failed) return;
        if (queue_active) fail("sched/queue-left-active", "coro_queue::is_active() after the outermost activation returned");
        bool pending = !D.empty() && !one_at_a_time;
        for (auto &b : Q) pending |= !b.empty();
        if (running >= 0 && !expect_continue) pending = true;
        if (pending || running >= 0) {
            fail("sched/ready-coroutine-left-unrun", "the outermost activation returned to normal code while ready coroutines had not run");
        }
    }
};

// ---------------------------------------------------------------------------------------------- real execution
struct Env {
    cocls::future<int> fut[2];
    cocls::promise<int> prom[2];
    cocls::mutex mx;
    cocls::queue<int> q;
    cocls::future<void> cf[MAXA];
    Ref ref;
    int finished = 0;
    int active[MAXA] = {};
};

static cocls::async<void> actor(Env &e, int id);

static void ev_run(Env &e, int id, bool start, int idx) {
    Ref &r = e.ref;
    // resolve a pending hand-over now that we know who took the direct transfer
    bool was_handover = r.pending_rest_then >= 0 && r.running < 0;
    bool was_pause = r.pause_pop && r.running < 0;
    if (was_handover) {
        r.handover_set = r.allowed;
    }
    r.on_run(id, start, idx);
    if (r.failed) return;
    if (was_handover) r.after_transfer(id);
    if (was_pause) r.pause_pop = false;
}

static cocls::async<void> actor(Env &e, int id) {
    if (e.active[id]++) e.ref.fail("sched/resumed-while-running", "coroutine " + std::to_string(id) + " entered while already active");
    ev_run(e, id, true, -1);
    cocls::mutex::ownership own;
    const Script &sc = e.ref.scripts[(size_t)id];
    for (size_t i = 0; i < sc.size(); i++) {
        Step st = sc[i];
        e.ref.on_step(id);
        e.ref.R->step();
        e.active[id]--;
        switch (st.k) {
            case PAUSE: co_await cocls::pause(); break;
            case RESD: e.prom[st.arg](7); break;
            case RESA: co_await e.prom[st.arg](7); break;
            case AW: co_await e.fut[st.arg]; break;
            case LOCK: own = co_await e.mx.lock(); break;
            case RELD: own.release(); break;
            case RELA: co_await own.release(); break;
            case QPUSHD: e.q.push(1); break;
            case QPUSHA: co_await e.q.push(1); break;
            case QPOP: co_await e.q.pop(); break;
            case DETD:
                // two ways to start a child and discard the suspend point: detach(), and start(promise) - the rarely used overload
                // that returns suspend_point<bool>. Either way the child is only readied: it runs after the starter gives way.
                if ((id + st.arg) & 1) {
                    cocls::promise<void> p = e.cf[st.arg].get_promise();
                    actor(e, st.arg).start(p);
                } else
                    actor(e, st.arg).detach();
                break;
            case DETA: co_await actor(e, st.arg).detach(); break;
            case STARTF: e.cf[st.arg] << [&] { return actor(e, st.arg).start(); }; break;
            case COAWAIT: co_await actor(e, st.arg); break;
            case CSPD: {
                cocls::suspend_point<void> sp = cocls::coro_queue::create_suspend_point([&] { e.prom[st.arg](7); });
                break;  // discarded
            }
            case CSPA: co_await cocls::coro_queue::create_suspend_point([&] { e.prom[st.arg](7); }); break;
            case NEST: cocls::coro_queue::install_queue_and_call([&] { e.prom[st.arg](7); }); break;
            case RES2D: {
                cocls::suspend_point<void> sp = e.prom[0](7);
                if (id & 1)
                    sp = e.prom[1](7);  // move-assignment merges, like <<
                else
                    sp << e.prom[1](7);
                break;  // discarded
            }
        }
        if (e.active[id]++) e.ref.fail("sched/resumed-while-running", "coroutine " + std::to_string(id) + " resumed while already active");
        ev_run(e, id, false, (int)i);
    }
    e.ref.on_fin(id);
    e.finished++;
    e.active[id]--;
}
static cocls::async<void> entry_wrapper(Env &e) {
    // "entered from inside another coroutine": actor 0 is detached by a running coroutine, which then finishes
    actor(e, 0).detach();
    co_return;
}

static std::string describe(int entry, const std::vector<Script> &scripts) {
    std::ostringstream o;
    static const char *entry_names[] = {"normal", "coroutine", "unwinding", "resume-by-handle"};
    o << "entry=" << entry_names[entry] << ";";
    for (size_t a = 0; a < scripts.size(); a++) {
        o << "c" << a << "=";
        for (size_t i = 0; i < scripts[a].size(); i++) o << (i ? "," : "") << scripts[a][i].k << ":" << scripts[a][i].arg;
        o << ";";
    }
    return o.str();
}

static void run_program(seqx::Runner &R, int entry, const std::vector<Script> &scripts) {
    R.begin(describe(entry, scripts));
    int64_t base = seqx::live_allocs();
    {
        auto e = std::make_unique<Env>();
        g_env = e.get();
        e->ref.R = &R;
        e->ref.scripts = scripts;
        e->ref.nactors = (int)scripts.size();
        for (int k = 0; k < 2; k++) e->prom[k] = e->fut[k].get_promise();
        int nstarted_expected = 0;
        // which actors get started at all
        std::vector<bool> started(scripts.size(), false);
        started[0] = true;
        for (auto &s : scripts)
            for (auto &st : s)
                if (st.k == DETD || st.k == DETA || st.k == STARTF || st.k == COAWAIT) started[(size_t)st.arg] = true;
        for (bool b : started) nstarted_expected += b;
        Ref &r = e->ref;
        // entry
        r.state[0] = 1;
        r.one_at_a_time = entry == 3;
        // what normal code does with a suspend point it has just obtained
        auto release_from_normal_code = [&](auto &&make_sp) {
            if (entry == 2) {
                // in a destructor that runs while an exception propagates through ordinary code
                struct G {
                    std::function<void()> f;
                    ~G() { f(); }
                };
                try {
                    G g{[&] { make_sp(); }};
                    throw 0;
                } catch (int) {
                }
                r.on_top_return(cocls::coro_queue::is_active());
            } else if (entry == 3) {
                cocls::suspend_point<void> sp = make_sp();
                while (!sp.empty() && !r.failed) {
                    std::coroutine_handle<> h = sp.pop();
                    r.allowed = r.D;
                    cocls::coro_queue::resume(h);
                    r.on_top_return(cocls::coro_queue::is_active());
                }
            } else {
                make_sp();
                r.on_top_return(cocls::coro_queue::is_active());
            }
        };
        if (entry == 0 || entry >= 2) {
            r.D = {0};
            r.allowed = r.D;
            release_from_normal_code([&] { return cocls::suspend_point<void>(actor(*e, 0).detach()); });
        } else {
            // the wrapper is not modelled as an actor: it readies actor 0 with a discarded suspend point and finishes,
            // so actor 0 runs from the queue
            r.Q.push_back({0});
            r.allowed = {0};
            entry_wrapper(*e).detach();
            r.on_top_return(cocls::coro_queue::is_active());
        }
        // epilogue from normal code: make everything still pending complete
        for (int round = 0; round < 20 && e->finished < nstarted_expected && !r.failed; round++) {
            bool acted = false;
            for (int k = 0; k < 2 && !acted; k++)
                if (!r.fut_resolved[k] && !r.fut_waiters[k].empty()) {
                    r.fut_resolved[k] = true;
                    r.D = r.take_waiters(k);
                    r.allowed = r.D;
                    r.trace += "<resolve> ";
                    release_from_normal_code([&] { return cocls::suspend_point<void>(e->prom[k](9)); });
                    acted = true;
                }
            if (!acted && !r.q_poppers.empty()) {
                r.D = {r.q_poppers.front()};
                r.q_poppers.pop_front();
                r.allowed = r.D;
                r.trace += "<push> ";
                release_from_normal_code([&] { return cocls::suspend_point<void>(e->q.push(1)); });
                acted = true;
            }
            if (!acted) break;
        }
        if (!r.failed && e->finished != nstarted_expected)
            r.fail("sched/coroutine-never-finished", std::to_string(e->finished) + " of " + std::to_string(nstarted_expected) + " started coroutines finished (a readied coroutine was lost)");
        // unresolved futures must be resolved before destruction
        for (int k = 0; k < 2; k++) e->prom[k](cocls::drop);
        R.outcome(seqx::hash_str(r.trace));
        R.state(seqx::hash_str(r.trace) ^ 0x55);
        if (cocls::coro_queue::is_active()) seq_reset_thread_state();  // (reported above as sched/queue-left-active)
        g_env = nullptr;
        if (r.failed) {
            // objects may be in an inconsistent state (e.g. a parked coroutine): do not run destructors that assert
            (void)e.release();
        }
    }
    if (!R.case_fail && seqx::live_allocs() != base) R.fail("sched/allocation-balance", "%ld allocations not released (a coroutine frame was never resumed to completion)", (long)(seqx::live_allocs() - base));
    R.end(true);
}

// ---------------------------------------------------------------------------------------------- enumeration
struct Gen {
    seqx::Runner &R;
    int N, maxlen;
    std::vector<int> alphabet;  // step kinds allowed
    int nfut;
    std::vector<Script> scripts;
    std::vector<bool> detached;
    int nentries = 2;  // 4: also from a destructor during stack unwinding, and resumed handle by handle with coro_queue::resume
    void gen_actor(int a) {
        if (R.stop()) return;
        if (a == N) {
            // every actor beyond 0 must be started by somebody, otherwise the program is an (N-1)-actor program
            for (int j = 1; j < N; j++)
                if (!detached[(size_t)j]) return;
            for (int entry = 0; entry < nentries; entry++)
                if (R.next_case()) run_program(R, entry, scripts);
            return;
        }
        gen_steps(a, false);
    }
    void gen_steps(int a, bool holds) {
        if (R.stop()) return;
        // close the script here (an owned mutex is released explicitly so that the release is an observable step)
        {
            bool pushed = false;
            if (holds) {
                scripts[(size_t)a].push_back({RELD, 0});
                pushed = true;
            }
            gen_actor(a + 1);
            if (pushed) scripts[(size_t)a].pop_back();
        }
        int len = (int)scripts[(size_t)a].size();
        if (len >= maxlen) return;
        for (int k : alphabet) {
            if ((k == LOCK) && holds) continue;
            if ((k == RELD || k == RELA) && !holds) continue;
            if (k == RES2D && nfut < 2) continue;
            if (k == COAWAIT && holds) continue;  // awaiting a child that needs the mutex we hold is a designed deadlock
            bool spawns = k == DETD || k == DETA || k == STARTF || k == COAWAIT;
            int nargs = (k == RESD || k == RESA || k == AW || k == CSPD || k == CSPA || k == NEST) ? nfut : spawns ? N : 1;
            for (int arg = 0; arg < nargs; arg++) {
                if (spawns) {
                    if (arg <= a || detached[(size_t)arg]) continue;
                    detached[(size_t)arg] = true;
                }
                scripts[(size_t)a].push_back({k, arg});
                gen_steps(a, k == LOCK ? true : (k == RELD || k == RELA) ? false : holds);
                scripts[(size_t)a].pop_back();
                if (spawns) detached[(size_t)arg] = false;
            }
        }
    }
};

static void enumerate(seqx::Runner &R, int N, int maxlen, int nfut, std::vector<int> alphabet, int nentries = 2) {
    Gen g{R, N, maxlen, std::move(alphabet), nfut, std::vector<Script>((size_t)N), std::vector<bool>((size_t)N, false)};
    g.nentries = nentries;
    g.gen_actor(0);
}

}  // namespace

// one operation readies 1..6 coroutines at once (beyond the suspend point's inline capacity of three): a starter spawns
// n waiters of one future and resolves it, discarding or awaiting the suspend point
static void wide_family(seqx::Runner &R) {
    for (int n = 1; n <= 6; n++)
        for (int res : {RESD, RESA})
            for (int tail = 0; tail < 3; tail++)
                for (int entry = 0; entry < 4; entry++) {
                    std::vector<Script> scripts((size_t)n + 1);
                    for (int j = 1; j <= n; j++) {
                        scripts[0].push_back({j % 2 ? DETD : DETA, j});
                        scripts[(size_t)j].push_back({AW, 0});
                        if (tail == 1 || (tail == 2 && j % 2)) scripts[(size_t)j].push_back({PAUSE, 0});
                    }
                    scripts[0].push_back({res, 0});
                    if (tail) scripts[0].push_back({PAUSE, 0});
                    if (R.next_case()) run_program(R, entry, scripts);
                }
}

void seqx_run(seqx::Runner &R, const std::string &tier) {
    seq_warmup();
    wide_family(R);
    std::vector<int> full;
    for (int k = 0; k < NSK; k++) full.push_back(k);
    if (tier == "quick") {
        enumerate(R, 2, 3, 1, {PAUSE, RESD, RESA, AW, LOCK, RELD, RELA, QPUSHD, QPUSHA, QPOP, DETD, DETA, STARTF, COAWAIT}, 4);
        enumerate(R, 3, 2, 2, {PAUSE, RESD, RESA, AW, LOCK, RELD, RELA, QPUSHD, QPOP, DETD, DETA, STARTF, COAWAIT, RES2D});
        enumerate(R, 3, 3, 1, {PAUSE, AW, DETD, CSPD, CSPA});
        enumerate(R, 3, 3, 1, {PAUSE, AW, DETD, RESD, NEST});
    } else {
        enumerate(R, 2, 3, 2, full, 4);
        enumerate(R, 2, 4, 1, {PAUSE, RESD, RESA, AW, LOCK, RELD, RELA, DETD, DETA, STARTF, COAWAIT});
        enumerate(R, 3, 2, 2, full);
        enumerate(R, 3, 3, 1, {PAUSE, RESD, AW, DETD, STARTF, COAWAIT});
        enumerate(R, 4, 2, 2, {PAUSE, RESD, AW, DETD, STARTF, RES2D});
    }
}

void seqx_replay(seqx::Runner &R, const std::string &c) {
    seq_warmup();
    int entry = c.find("entry=coroutine") != std::string::npos ? 1 : c.find("entry=unwinding") != std::string::npos ? 2 : c.find("entry=resume-by-handle") != std::string::npos ? 3 : 0;
    std::vector<Script> scripts;
    for (int a = 0; a < MAXA; a++) {
        std::string key = "c" + std::to_string(a) + "=";
        size_t p = c.find(key);
        if (p == std::string::npos) break;
        size_t e = c.find(';', p);
        std::string body = c.substr(p + key.size(), e - p - key.size());
        Script s;
        std::stringstream ss(body);
        std::string tok;
        while (std::getline(ss, tok, ',')) {
            int k = 0, arg = 0;
            if (sscanf(tok.c_str(), "%d:%d", &k, &arg) == 2) s.push_back({k, arg});
        }
        scripts.push_back(s);
    }
    R.next_case();
    run_program(R, entry, scripts);
    if (R.replaying) printf("TRACE recorded by the reference (S=start A=after-step F=finish |=return to normal code)\n");
}

SEQX_MAIN()
