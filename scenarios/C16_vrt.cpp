// C16 (threaded part) - publisher thread against coroutine / blocking / polling subscribers on other threads.
#include "common_vrt.h"
#include <cocls/publisher.h>
#include <memory>

namespace {

enum SK { SK_CORO = 0, SK_BLOCK, SK_POLL, SK_RANGE, SK_NK };
static const char *sk_names[] = {"coro", "block", "poll", "range"};
enum PS { PS_PUB2 = 0, PS_BATCH, PS_PUB1, PS_NK };
static const char *ps_names[] = {"pub-pub-close", "pub-batch2-close", "pub-close"};
static const char *mode_names[] = {"all", "behind", "recent"};

// scratch: count[id] at 0..1, done[id] at 2..3, values at 10+id*10
enum { S_CNT = 0, S_DONE = 2, S_VAL = 10 };

static void got(int id, int v) {
    int64_t *s = vrt_scratch();
    int64_t n = s[S_CNT + id]++;
    if (n < 10) s[S_VAL + id * 10 + n] = v;
}

static cocls::async<void> coro_sub(cocls::subscriber<int> &sub, int id) {
    // note: no co_await inside a loop/if condition - g++ 12 with -fsanitize misplaces the promoted condition temporary in the frame
    for (;;) {
        bool more = co_await sub.next();
        if (!more) break;
        got(id, sub.value());
    }
    vrt_scratch()[S_DONE + id]++;
}

static void sub_thread(cocls::subscriber<int> &sub, int id, int kind, int total) {
    static const char *labels[] = {"s0", "s1"};
    vrt_label(labels[id]);
    switch (kind) {
        case SK_CORO: coro_sub(sub, id).detach(); break;
        case SK_BLOCK:
            while (sub.next()) got(id, sub.value());  // blocking conversion to bool
            vrt_scratch()[S_DONE + id]++;
            break;
        case SK_RANGE:
            for (int &v : sub) got(id, v);  // iterator interface (blocking)
            vrt_scratch()[S_DONE + id]++;
            break;
        case SK_POLL:
            // polls until it has received the newest value that will ever be published; nothing is read after that
            // (what next_ready() does beyond the end of a closed stream is outside the property)
            for (long last = 0; last < total;) {
                if (sub.next_ready()) {
                    last = sub.value();
                    got(id, (int)last);
                    continue;
                }
                vrt_yield();
            }
            vrt_scratch()[S_DONE + id]++;
            break;
    }
}

static void scenario(int mode, int nsub, const int *kinds, int ps) {
    int64_t *s = vrt_scratch();
    {
        auto pub = std::make_unique<cocls::publisher<int>>();
        auto st = mode == 0 ? cocls::subscribtion_type::all_values : mode == 1 ? cocls::subscribtion_type::skip_if_behind : cocls::subscribtion_type::skip_to_recent;
        std::unique_ptr<cocls::subscriber<int>> subs[2];
        for (int i = 0; i < nsub; i++) subs[i].reset(new cocls::subscriber<int>(*pub, st));
        vstd::thread th[2], pt;
        int total = ps == PS_PUB2 ? 2 : ps == PS_BATCH ? 3 : 1;
        for (int i = 0; i < nsub; i++) th[i] = vstd::thread(sub_thread, std::ref(*subs[i]), i, kinds[i], total);
        pt = vstd::thread([&] {
            vrt_label("publisher");
            pub->publish(1);
            if (ps == PS_PUB2) pub->publish(2);
            if (ps == PS_BATCH) {
                int v[2] = {2, 3};
                pub->publish(&v[0], &v[2]);
            }
            pub->close();
            vrt_scratch()[50] = 1;
        });
        pt.join();
        vrt_label("main-join-subscribers");
        for (int i = 0; i < nsub; i++) th[i].join();
        for (int i = 0; i < nsub; i++) {
            vrt_label("main-wait-subscriber-eos");
            while (!s[S_DONE + i]) vrt_yield();
        }
        vrt_label("main");
        for (int i = 0; i < nsub; i++) {
            int64_t n = s[S_CNT + i];
            VRT_CHECK(n <= 10, "pub/too-many-values", "subscriber %d received %ld values, %d were published", i, (long)n, total);
            long prev = 0;
            for (int k = 0; k < n; k++) {
                long v = s[S_VAL + i * 10 + k];
                if (v <= prev) vrt_fail("pub/duplicate-or-backwards", "subscriber %d (%s, %s) received %ld after %ld", i, mode_names[mode], sk_names[kinds[i]], v, prev);
                if (v > total) vrt_fail("pub/value-never-published", "subscriber %d received %ld, only %d values were published", i, v, total);
                if (mode == 0 && v != prev + 1) vrt_fail("pub/gap", "subscriber %d (all_values, %s) received %ld after %ld", i, sk_names[kinds[i]], v, prev);
                prev = v;
            }
            if (mode == 0 && kinds[i] != SK_POLL)
                VRT_CHECK(n == total, "pub/early-end-of-stream", "subscriber %d (all_values, %s) got end-of-stream after %ld of %d values (publisher closed and drained is the only allowed reason)", i,
                          sk_names[kinds[i]], (long)n, total);
            if (mode == 0 && kinds[i] == SK_POLL) VRT_CHECK(n == total, "pub/poller-missed-values", "polling subscriber %d saw %ld of %d values after the final drain", i, (long)n, total);
            if (mode != 0 && kinds[i] != SK_POLL) VRT_CHECK(prev == total, "pub/newest-not-delivered", "subscriber %d (%s) ended at %ld, newest is %d", i, mode_names[mode], prev, total);
        }
        vrt_outcome("n0=%ld n1=%ld", (long)s[S_CNT], (long)s[S_CNT + 1]);
        subs[0].reset();
        subs[1].reset();
    }
}

// two publishing threads (publish is documented MT-safe) against parked subscribers; main closes after both are done.
// The global order of the three values is the schedule's choice: every all_values subscriber must see each value once,
// 11 before 12, all subscribers in the same order, then end-of-stream.
static void mt_scenario(int nsub, const int *kinds) {
    int64_t *s = vrt_scratch();
    {
        auto pub = std::make_unique<cocls::publisher<int>>();
        std::unique_ptr<cocls::subscriber<int>> subs[2];
        for (int i = 0; i < nsub; i++) subs[i].reset(new cocls::subscriber<int>(*pub, cocls::subscribtion_type::all_values));
        vstd::thread th[2], pa, pb;
        for (int i = 0; i < nsub; i++) th[i] = vstd::thread(sub_thread, std::ref(*subs[i]), i, kinds[i], 0);
        pa = vstd::thread([&] {
            vrt_label("publisherA");
            pub->publish(11);
            pub->publish(12);
        });
        pb = vstd::thread([&] {
            vrt_label("publisherB");
            pub->publish(21);
        });
        pa.join();
        pb.join();
        pub->close();
        vrt_label("main-join-subscribers");
        for (int i = 0; i < nsub; i++) th[i].join();
        for (int i = 0; i < nsub; i++) {
            vrt_label("main-wait-subscriber-eos");
            while (!s[S_DONE + i]) vrt_yield();
        }
        vrt_label("main");
        for (int i = 0; i < nsub; i++) {
            int64_t n = s[S_CNT + i];
            VRT_CHECK(n == 3, n < 3 ? "pub/early-end-of-stream" : "pub/too-many-values", "subscriber %d received %ld of the 3 values published by two threads", i, (long)n);
            int c11 = 0, c12 = 0, c21 = 0, pos11 = -1, pos12 = -1;
            for (int k = 0; k < n; k++) {
                long v = s[S_VAL + i * 10 + k];
                if (v == 11) c11++, pos11 = k;
                else if (v == 12) c12++, pos12 = k;
                else if (v == 21) c21++;
                else vrt_fail("pub/value-never-published", "subscriber %d received %ld", i, v);
            }
            VRT_CHECK(c11 == 1 && c12 == 1 && c21 == 1, "pub/duplicate-or-missing", "subscriber %d saw 11 x%d, 12 x%d, 21 x%d", i, c11, c12, c21);
            VRT_CHECK(pos11 < pos12, "pub/duplicate-or-backwards", "subscriber %d received 12 before 11", i);
            for (int k = 0; k < n; k++)
                VRT_CHECK(s[S_VAL + i * 10 + k] == s[S_VAL + k], "pub/subscribers-disagree", "subscriber %d saw %ld at position %d, subscriber 0 saw %ld", i, (long)s[S_VAL + i * 10 + k], k, (long)s[S_VAL + k]);
        }
        vrt_outcome("first=%ld", (long)s[S_VAL]);
        subs[0].reset();
        subs[1].reset();
    }
}

// bounded publisher (max_queue_len = 1) of items with a real lifetime: the publisher trims what a slow subscriber has not
// fetched yet (that subscriber may then see an early end - the documented "left behind"), but whatever a subscriber does
// receive is a complete copy of a value that was published, in increasing order
struct Item {
    long a = 0, b = 0;
    Item() = default;
    explicit Item(long v) : a(v), b(~v) {}
    Item(const Item &o) : a(o.a), b(o.b) {}
    Item &operator=(const Item &o) {
        a = o.a;
        b = o.b;
        return *this;
    }
    ~Item() {
        volatile long *p = &a, *q = &b;  // volatile: the compiler must not drop stores into a dying object
        *p = -1;
        *q = -1;  // poisoned: a copy taken from a destroyed item fails the checksum
    }
    bool ok() const { return b == ~a; }
};
static cocls::async<void> coro_sub_item(cocls::subscriber<Item> &sub) {
    int64_t *s = vrt_scratch();
    for (;;) {
        bool more = co_await sub.next();
        if (!more) break;
        const Item &it = sub.value();
        if (!it.ok()) vrt_fail("pub/torn-or-dead-value", "subscriber received an item with a broken checksum (a=%ld)", it.a);
        got(0, (int)it.a);
    }
    s[S_DONE]++;
}
static void bounded_scenario(int kind, int mode) {
    int64_t *s = vrt_scratch();
    {
        auto pub = std::make_unique<cocls::publisher<Item>>(1, 1);
        auto st = mode == 0 ? cocls::subscribtion_type::all_values : mode == 1 ? cocls::subscribtion_type::skip_if_behind : cocls::subscribtion_type::skip_to_recent;
        auto sub = std::make_unique<cocls::subscriber<Item>>(*pub, st);
        vstd::thread th([&] {
            vrt_label("s0");
            if (kind == SK_CORO)
                coro_sub_item(*sub).detach();
            else {
                while (sub->next()) {
                    const Item &it = sub->value();
                    if (!it.ok()) vrt_fail("pub/torn-or-dead-value", "subscriber received an item with a broken checksum (a=%ld)", it.a);
                    got(0, (int)it.a);
                }
                vrt_scratch()[S_DONE]++;
            }
        });
        vstd::thread pt([&] {
            vrt_label("publisher");
            pub->publish(Item(1));
            pub->publish(Item(2));
            pub->publish(Item(3));
            pub->close();
        });
        pt.join();
        vrt_label("main-join-subscribers");
        th.join();
        vrt_label("main-wait-subscriber-eos");
        while (!s[S_DONE]) vrt_yield();
        vrt_label("main");
        long prev = 0;
        for (int k = 0; k < s[S_CNT] && k < 10; k++) {
            long v = s[S_VAL + k];
            if (v <= prev) vrt_fail("pub/duplicate-or-backwards", "bounded publisher: subscriber received %ld after %ld", v, prev);
            if (v > 3) vrt_fail("pub/value-never-published", "subscriber received %ld", v);
            if (mode == 0 && v != prev + 1) vrt_fail("pub/gap", "bounded publisher, all_values: received %ld after %ld (a subscriber left behind ends, it does not skip)", v, prev);
            prev = v;
        }
        vrt_outcome("n=%ld last=%ld", (long)s[S_CNT], prev);
        sub.reset();
    }
}

// a subscriber is copied on one thread while another thread registers new subscribers (the registration table grows)
static void copy_scenario() {
    int64_t *s = vrt_scratch();
    {
        auto pub = std::make_unique<cocls::publisher<int>>();
        pub->publish(1);
        auto sub0 = std::make_unique<cocls::subscriber<int>>(*pub, cocls::subscribtion_type::all_values);
        std::unique_ptr<cocls::subscriber<int>> copy, extra[3];
        vstd::thread ta([&] {
            vrt_label("copier");
            copy.reset(new cocls::subscriber<int>(*sub0));
        });
        vstd::thread tb([&] {
            vrt_label("subscriber-maker");
            for (auto &e : extra) e.reset(new cocls::subscriber<int>(*pub, cocls::subscribtion_type::all_values));
        });
        ta.join();
        tb.join();
        pub->publish(2);
        pub->close();
        // the copy continues from the original's position: it sees exactly what the original sees
        int k[2] = {SK_BLOCK, SK_BLOCK};
        (void)k;
        sub_thread(*sub0, 0, SK_BLOCK, 2);
        sub_thread(*copy, 1, SK_BLOCK, 2);
        vrt_label("main");
        VRT_CHECK(s[S_CNT] == s[S_CNT + 1], "pub/copy-differs", "the original received %ld values, its copy %ld", (long)s[S_CNT], (long)s[S_CNT + 1]);
        for (int i = 0; i < s[S_CNT] && i < 10; i++)
            VRT_CHECK(s[S_VAL + i] == s[S_VAL + 10 + i], "pub/copy-differs", "value #%d: original %ld, copy %ld", i, (long)s[S_VAL + i], (long)s[S_VAL + 10 + i]);
        VRT_CHECK(s[S_CNT] >= 1 && s[S_VAL + s[S_CNT] - 1] == 2, "pub/newest-not-delivered", "the last value seen is not the newest");
        vrt_outcome("n=%ld", (long)s[S_CNT]);
        copy.reset();
        for (auto &e : extra) e.reset();
        sub0.reset();
    }
}

VRT_REGISTER(reg_pub) {
    vrt::add("pubcopy_concurrent-subscribe", [] { copy_scenario(); });
    for (int mode = 0; mode < 3; mode++)
        for (int k : {SK_CORO, SK_BLOCK}) vrt::add(std::string("pubbound_") + mode_names[mode] + "_" + sk_names[k], [=] { bounded_scenario(k, mode); });
    for (int a = 0; a < 2; a++) {
        vrt::add(std::string("pubmt1_") + sk_names[a], [=] {
            int k[2] = {a, 0};
            mt_scenario(1, k);
        });
        for (int b = a; b < 2; b++)
            vrt::add(std::string("pubmt2_") + sk_names[a] + "-" + sk_names[b], [=] {
                int k[2] = {a, b};
                mt_scenario(2, k);
            });
    }
    for (int mode = 0; mode < 3; mode++)
        for (int ps = 0; ps < PS_NK; ps++) {
            for (int a = 0; a < SK_NK; a++) {
                std::string name = std::string("pub1_") + mode_names[mode] + "_" + sk_names[a] + "_" + ps_names[ps];
                vrt::add(name, [=] {
                    int k[2] = {a, 0};
                    scenario(mode, 1, k, ps);
                });
            }
            for (int a = 0; a < SK_NK; a++)
                for (int b = a; b < SK_NK; b++) {
                    std::string name = std::string("pub2_") + mode_names[mode] + "_" + sk_names[a] + "-" + sk_names[b] + "_" + ps_names[ps];
                    vrt::add(name, [=] {
                        int k[2] = {a, b};
                        scenario(mode, 2, k, ps);
                    });
                }
        }
}

}  // namespace

int main(int argc, char **argv) { return vrt_main(argc, argv); }
