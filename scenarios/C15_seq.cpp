// C15 (sequential part) - signal: every waiting listener gets every value exactly once; disconnect wakes all.
#include <cocls/future.h>
#include <cocls/async.h>
#include <cocls/signal.h>

#include <memory>
#include <optional>
#include <sstream>

#include "../engine/seqx/seqx.h"
#include "common_seq.h"

namespace {

// value type with a non-trivial lifetime: a listener that is handed a value whose lifetime has ended reads the poison
struct Boom {};
struct CtorFailed {};
struct Val {
    int v, chk;
    Val(long x) : v((int)x), chk(~(int)x) {}  // in-place construction through the collector's (Args&&...) overload
    Val(Boom) : v(0), chk(0) { throw CtorFailed(); }  // a value whose construction fails: nothing is emitted, nobody is lost
    Val(const Val &) = default;
    Val &operator=(const Val &) = default;
    ~Val() {
        volatile int *p = &v, *q = &chk;
        *p = -7777;
        *q = 0;
    }
    int get() const { return chk == ~v ? v : -7777; }
};
using Sig = cocls::signal<Val>;
enum Op { ARRIVE0 = 0, ARRIVE1, ARRIVE2, LEAVE0, LEAVE1, LEAVE2, CONNECT_T, CONNECT_F, CALL_VAL, CALL_RV, CALL_LV, DROP_SIG, DROP_COL, COPY_COL, HOOKUP, HOOK_CALL, HOOK_DROP, CALL_ALIAS, COL_TO_SIG, NOPS };
static const char *op_names[] = {"arrive0", "arrive1", "arrive2", "leave0", "leave1", "leave2", "connect_true", "connect_false", "call(value)", "call(rvalue)", "call(lvalue)",
                                 "drop_signal", "drop_collector", "copy_collector", "hook_up", "hook_call", "hook_drop", "call(lvalue = the value stored by the previous call)", "signal-from-collector-and-drop"};
constexpr int NL = 3;

struct World {
    std::optional<Sig> sig;
    std::optional<Sig::collector> col, col2;
    Sig::emitter em0;
    std::optional<Sig::collector> hook_col;
    std::vector<int> rec[NL + 1];  // values received (-1 = await_canceled); index NL = hook_up listener
    bool leave[NL + 1] = {false, false, false, false};
    bool started[NL + 1] = {false, false, false, false};
    bool finished[NL + 1] = {false, false, false, false};
    Val *stored_ref = nullptr;  // where a receiver saw the value stored by the last by-value / rvalue call
    bool capture = false;
    int hook_registrations = 0;  // how often hook_up called the registration function
    long replay_value = 0;       // non-zero: the registration function emits this value before it returns
    int hook_reawait = 0;        // 1: awaiting the hook_up emitter again after its disconnect is in progress, 2: it answered
    std::vector<int> cb_rec[2];  // callbacks: [0] returns true, [1] returns false
    int cb_connected[2] = {0, 0};
};
struct Model {
    bool has_sig = true, has_col = true, has_col2 = false;
    bool waiting[NL + 1] = {false, false, false, false};
    bool started[NL + 1] = {false, false, false, false};
    bool leave[NL + 1] = {false, false, false, false};
    std::vector<int> expect[NL + 1];
    std::vector<int> cb_expect[2];
    int cb_live[2] = {0, 0};
    bool hook_col = false;
    int alias_val = 0;  // value stored inside the signal by the last by-value / rvalue call that reached somebody (0: none)
    int next_val = 1;
    int handles() const { return has_sig + has_col + has_col2; }
    bool enabled(int op) const {
        switch (op) {
            case ARRIVE0:
            case ARRIVE1:
            case ARRIVE2: return !started[op - ARRIVE0];
            case LEAVE0:
            case LEAVE1:
            case LEAVE2: return waiting[op - LEAVE0] && !leave[op - LEAVE0];
            case CONNECT_T: return has_sig && cb_live[0] == 0;
            case CONNECT_F: return has_sig && cb_live[1] == 0;
            case CALL_VAL:
            case CALL_RV:
            case CALL_LV: return has_col;
            case CALL_ALIAS: return has_col && alias_val != 0;
            case COL_TO_SIG: return has_col;  // one more handle for a moment: nothing changes
            case DROP_SIG: return has_sig;
            case DROP_COL: return has_col;
            case COPY_COL: return has_col && !has_col2;
            case HOOKUP: return !started[NL];
            case HOOK_CALL:
            case HOOK_DROP: return hook_col;
        }
        return false;
    }
    void disconnect_if_last() {
        if (handles() == 0) {
            for (int k = 0; k < NL; k++)
                if (waiting[k]) {
                    expect[k].push_back(-1);
                    waiting[k] = false;
                }
            cb_live[0] = cb_live[1] = 0;
        }
    }
    void apply(int op) {
        switch (op) {
            case ARRIVE0:
            case ARRIVE1:
            case ARRIVE2: {
                int k = op - ARRIVE0;
                started[k] = true;
                if (handles() == 0)
                    expect[k].push_back(-1);  // awaiting a disconnected emitter fails immediately
                else
                    waiting[k] = true;
                break;
            }
            case LEAVE0:
            case LEAVE1:
            case LEAVE2: leave[op - LEAVE0] = true; break;
            case CONNECT_T: cb_live[0] = 1; break;
            case CONNECT_F: cb_live[1] = 1; break;
            case CALL_VAL:
            case CALL_RV:
            case CALL_LV:
            case CALL_ALIAS: {
                int v = op == CALL_ALIAS ? alias_val : next_val++;
                if (op != CALL_ALIAS) {
                    bool reached = cb_live[0] || cb_live[1];
                    for (int k = 0; k < NL; k++) reached |= waiting[k];
                    alias_val = (op != CALL_LV && reached) ? v : 0;
                }
                for (int k = 0; k < NL; k++)
                    if (waiting[k]) {
                        expect[k].push_back(v);
                        if (leave[k]) waiting[k] = false;
                    }
                if (cb_live[0]) cb_expect[0].push_back(v);
                if (cb_live[1]) {
                    cb_expect[1].push_back(v);
                    cb_live[1] = 0;
                }
                break;
            }
            case DROP_SIG:
                has_sig = false;
                disconnect_if_last();
                break;
            case DROP_COL:
                if (has_col2) {
                    has_col2 = false;  // the harness drops the copy first
                } else
                    has_col = false;
                disconnect_if_last();
                break;
            case COPY_COL: has_col2 = true; break;
            case HOOKUP:
                started[NL] = true;
                waiting[NL] = true;
                hook_col = true;
                // every other time the registration function emits at once (a source that replays its current value to a
                // new subscriber): the hooked listener receives that value first
                if (next_val & 1) expect[NL].push_back(next_val++);
                break;
            case HOOK_CALL: {
                int v = next_val++;
                if (waiting[NL]) expect[NL].push_back(v);
                break;
            }
            case HOOK_DROP:
                hook_col = false;
                if (waiting[NL]) {
                    expect[NL].push_back(-1);
                    waiting[NL] = false;
                }
                break;
        }
    }
};

static cocls::async<void> listener(World &w, int k) {
    Sig::emitter em = w.em0;
    for (;;) {
        try {
            Val &v = co_await em;
            if (w.capture) w.stored_ref = &v;
            w.rec[k].push_back(v.get());
            if (w.leave[k]) break;
        } catch (const cocls::await_canceled_exception &) {
            w.rec[k].push_back(-1);
            break;
        }
    }
    w.finished[k] = true;
}
static cocls::async<void> hook_listener(World &w) {
    auto e = Sig::hook_up([&w](Sig::collector c) {
        w.hook_registrations++;
        if (w.replay_value) {
            c(w.replay_value);  // emitted during the registration (the signal keeps the value); the suspend point is discarded
        }
        w.hook_col.emplace(std::move(c));
    });
    for (;;) {
        try {
            Val &v = co_await e;
            w.rec[NL].push_back(v.get());
        } catch (const cocls::await_canceled_exception &) {
            w.rec[NL].push_back(-1);
            break;
        }
    }
    // awaiting the disconnected emitter once more fails the same way at once (it does not hook up a second time)
    w.hook_reawait = 1;
    try {
        Val &v = co_await e;
        w.rec[NL].push_back(v.get());
    } catch (const cocls::await_canceled_exception &) {
    }
    w.hook_reawait = 2;
    w.finished[NL] = true;
}

static std::string describe(const std::vector<int> &seq) {
    std::ostringstream o;
    o << "ops=";
    for (size_t i = 0; i < seq.size(); i++) o << (i ? "," : "") << op_names[seq[i]];
    return o.str();
}

static void run_case(seqx::Runner &R, const std::vector<int> &seq) {
    R.begin(describe(seq));
    int64_t base = seqx::live_allocs();
    {
        auto w = std::make_unique<World>();
        Model m;
        w->sig.emplace();
        w->col.emplace(w->sig->get_collector());
        w->em0 = w->sig->get_emitter();
        int next_val = 1;
        auto compare = [&](size_t step) {
            for (int k = 0; k <= NL; k++)
                if (w->rec[k] != m.expect[k]) {
                    std::string a, b;
                    for (int v : w->rec[k]) a += std::to_string(v) + " ";
                    for (int v : m.expect[k]) b += std::to_string(v) + " ";
                    const char *sig = w->rec[k].size() < m.expect[k].size() ? "signal/listener-missed-value" : w->rec[k].size() > m.expect[k].size() ? "signal/listener-extra-delivery" : "signal/listener-wrong-value";
                    R.fail(sig, "after step %zu (%s): listener %d received [ %s], expected [ %s] (-1 = await_canceled_exception)", step, op_names[seq[step]], k, a.c_str(), b.c_str());
                    return false;
                }
            for (int c = 0; c < 2; c++)
                if (w->cb_rec[c] != m.cb_expect[c]) {
                    R.fail("signal/callback-delivery", "after step %zu: connected callback %d received %zu values, expected %zu", step, c, w->cb_rec[c].size(), m.cb_expect[c].size());
                    return false;
                }
            return true;
        };
        bool ok = true;
        for (size_t i = 0; i < seq.size() && ok; i++) {
            int op = seq[i];
            m.apply(op);
            R.step();
            switch (op) {
                case ARRIVE0:
                case ARRIVE1:
                case ARRIVE2:
                    w->started[op - ARRIVE0] = true;
                    listener(*w, op - ARRIVE0).detach();
                    break;
                case LEAVE0:
                case LEAVE1:
                case LEAVE2: w->leave[op - LEAVE0] = true; break;
                case CONNECT_T:
                    w->sig->connect([wp = w.get()](Val &v) {
                        if (wp->capture) wp->stored_ref = &v;
                        wp->cb_rec[0].push_back(v.get());
                        return true;
                    });
                    break;
                case CONNECT_F:
                    w->sig->connect([wp = w.get()](Val &v) {
                        if (wp->capture) wp->stored_ref = &v;
                        wp->cb_rec[1].push_back(v.get());
                        return false;
                    });
                    break;
                case COL_TO_SIG: {
                    Sig extra = static_cast<Sig>(*w->col);  // e.g. made to connect one more listener; dropped again
                    (void)extra;
                    break;
                }
                case CALL_ALIAS:
                    if (!w->stored_ref) {
                        R.fail("signal/harness", "no receiver recorded the stored value");
                        ok = false;
                        break;
                    }
                    (*w->col)(*w->stored_ref);  // lvalue overload: refers to the object the signal itself still holds
                    break;
                case CALL_VAL: {
                    w->stored_ref = nullptr;
                    w->capture = true;
                    long wide = next_val++;  // goes through the constructing overload (Args&&...): in place or from a const lvalue
                    if (wide & 1)
                        (*w->col)(wide);
                    else {
                        const Val cv(wide);
                        (*w->col)(cv);
                    }
                    w->capture = false;
                    break;
                }
                case CALL_RV: {
                    // first an emission whose value cannot be constructed: the caller gets the exception, no listener is
                    // resumed, forgotten or disconnected by it (the model does not move)
                    try {
                        (*w->col)(Boom{});  // (not constructing the value at all when nobody listens would be fine too)
                    } catch (const CtorFailed &) {
                    }
                    w->stored_ref = nullptr;
                    w->capture = true;
                    Val v(next_val++);
                    (*w->col)(std::move(v));
                    w->capture = false;
                    break;
                }
                case CALL_LV: {
                    w->stored_ref = nullptr;
                    Val v(next_val++);
                    (*w->col)(v);
                    break;
                }
                case DROP_SIG: w->sig.reset(); break;
                case DROP_COL:
                    if (w->col2)
                        w->col2.reset();
                    else
                        w->col.reset();
                    break;
                case COPY_COL: w->col2.emplace(*w->col); break;
                case HOOKUP:
                    w->started[NL] = true;
                    if (next_val & 1) w->replay_value = next_val++;
                    hook_listener(*w).detach();
                    if (!w->hook_col) {
                        R.fail("signal/hook_up-not-registered", "hook_up() did not hand a collector to the registration function on the first co_await");
                        ok = false;
                    }
                    break;
                case HOOK_CALL: {
                    Val v(next_val++);
                    (*w->hook_col)(v);
                    break;
                }
                case HOOK_DROP:
                    w->hook_col.reset();
                    if (w->hook_reawait == 1) {
                        R.fail("signal/listener-hangs-after-disconnect", "awaiting the hook_up emitter again after its disconnect did not fail at once: the listener is suspended again");
                        ok = false;
                    }
                    if (w->hook_registrations > 1) {
                        R.fail("signal/hook_up-registered-twice", "hook_up() called the registration function %d times", w->hook_registrations);
                        ok = false;
                    }
                    break;
            }
            if (ok) ok = compare(i);
            uint64_t key = (uint64_t)m.handles() * 4 + m.hook_col;
            for (int k = 0; k <= NL; k++) key = seqx::mix(key, (uint64_t)m.waiting[k] * 4 + m.leave[k] * 2 + m.started[k]);
            key = seqx::mix(key, (uint64_t)m.cb_live[0] * 2 + m.cb_live[1]);
            R.state(key);
        }
        // teardown: dropping every handle must release every listener and delete every callback
        w->sig.reset();
        w->col.reset();
        w->col2.reset();
        w->hook_col.reset();
        if (ok)
            for (int k = 0; k <= NL; k++)
                if (w->started[k] && !w->finished[k]) {
                    R.fail("signal/listener-hangs-after-disconnect", "listener %d is still suspended after the last collector/signal handle is gone", k);
                    ok = false;
                }
        if (!ok) (void)w.release();  // parked coroutines reference the world
        R.outcome(seqx::mix((uint64_t)m.next_val, (uint64_t)m.handles()));
    }
    if (!R.case_fail && seqx::live_allocs() != base) R.fail("signal/allocation-balance", "%ld allocations not released (callback or coroutine frame leaked)", (long)(seqx::live_allocs() - base));
    R.end(true);
}

static void dfs(seqx::Runner &R, int depth, std::vector<int> &seq, const Model &m) {
    if (R.stop()) return;
    if ((int)seq.size() == depth) {
        if (R.next_case()) run_case(R, seq);
        return;
    }
    for (int op = 0; op < NOPS; op++) {
        if (!m.enabled(op)) continue;
        Model m2 = m;
        m2.apply(op);
        seq.push_back(op);
        dfs(R, depth, seq, m2);
        seq.pop_back();
    }
}

// signal<void>: counting only
static void run_void(seqx::Runner &R) {
    R.begin("void-signal");
    int64_t base = seqx::live_allocs();
    {
        int got[2] = {0, 0}, cancelled[2] = {0, 0};
        auto sig = std::make_unique<cocls::signal<void>>();
        auto em = sig->get_emitter();
        auto col = sig->get_collector();
        auto L = [&](int k) -> cocls::async<void> {
            auto e = em;
            for (;;) {
                try {
                    co_await e;
                    got[k]++;
                } catch (const cocls::await_canceled_exception &) {
                    cancelled[k]++;
                    break;
                }
            }
        };
        L(0).detach();
        col();
        L(1).detach();
        col();
        col();
        int cbn = 0;
        sig->connect([&] {
            cbn++;
            return cbn < 2;
        });
        col();
        col();
        col();
        sig.reset();
        { auto dropped = std::move(col); }
        if (got[0] != 6 || got[1] != 5) R.fail("signal/void-count", "void listeners received %d and %d signals, expected 6 and 5", got[0], got[1]);
        if (cancelled[0] != 1 || cancelled[1] != 1) R.fail("signal/listener-hangs-after-disconnect", "void listeners cancelled %d/%d times", cancelled[0], cancelled[1]);
        if (cbn != 2) R.fail("signal/callback-delivery", "void callback ran %d times, expected 2", cbn);
    }
    if (!R.case_fail && seqx::live_allocs() != base) R.fail("signal/allocation-balance", "%ld allocations not released", (long)(seqx::live_allocs() - base));
    R.end(true);
}

// handles whose signal is already gone: a moved-from signal, and a signal rebuilt from a moved-from collector. Awaiting
// fails at once; a callback connected there is released at once (never called, its closure destroyed)
static void run_dead(seqx::Runner &R, int how) {
    R.begin(how ? "dead-signal-from-moved-collector" : "dead-signal-moved-from");
    int64_t base = seqx::live_allocs();
    {
        auto guard = std::make_shared<int>(0);
        int called = 0, cancelled = 0, got = 0;
        Sig a;
        std::optional<Sig> dead;
        if (how == 0) {
            Sig b(std::move(a));  // a's state moved away
            dead.emplace(std::move(a));
            (void)b;
        } else {
            Sig::collector c1 = a.get_collector();
            Sig::collector c2(std::move(c1));
            dead.emplace(Sig(c1));  // signal rebuilt from the moved-from collector
            (void)c2;
        }
        dead->connect([guard, &called](Val &) {
            called++;
            return true;
        });
        if (guard.use_count() != 1) R.fail("signal/callback-not-released", "a callback connected to a disconnected signal handle is still held (use_count %ld)", (long)guard.use_count());
        if (called) R.fail("signal/callback-delivery", "callback on a dead handle was called");
        auto L = [&]() -> cocls::async<void> {
            auto e = dead->get_emitter();
            try {
                Val &v = co_await e;
                (void)v;
                got++;
            } catch (const cocls::await_canceled_exception &) {
                cancelled++;
            }
        };
        L().detach();
        if (cancelled != 1 || got) R.fail("signal/listener-hangs-after-disconnect", "awaiting an emitter of a dead handle: cancelled=%d got=%d, expected an immediate await_canceled_exception", cancelled, got);
    }
    if (!R.case_fail && seqx::live_allocs() != base) R.fail("signal/allocation-balance", "%ld allocations not released", (long)(seqx::live_allocs() - base));
    R.end(true);
}

// ---------------------------------------------------------------------------------------------- emitting from inside a coroutine
// the documented generator form: a coroutine does `co_await collector(value)`; awaiting the returned suspend point hands the
// execution to the listeners, so every listener has taken the value before the emitting coroutine continues (and changes or
// destroys the object it passed by reference)
struct EmitCtx {
    std::vector<int> rec[2];
    int nl = 0;
    int received_before_continue_bad = 0;
};
static cocls::async<void> emit_listener(Sig::emitter em, EmitCtx &x, int k) {
    for (;;) {
        try {
            Val &v = co_await em;
            x.rec[k].push_back(v.get());
        } catch (const cocls::await_canceled_exception &) {
            x.rec[k].push_back(-1);
            break;
        }
    }
}
static cocls::async<void> emitting_coroutine(Sig::collector col, EmitCtx &x, std::vector<int> kinds) {
    long next = 1;
    for (int kind : kinds) {
        long val = next++;
        switch (kind) {
            case 0: co_await col(val); break;  // constructing overload
            case 1: {
                Val v(val);
                co_await col(std::move(v));
                break;
            }
            case 2: {
                Val v(val);
                co_await col(v);  // non-const lvalue: listeners get a reference to v
                v.v = -5;         // ... which the emitter is free to change afterwards
                v.chk = ~-5;
                break;
            }
            default: {
                const Val v(val);
                co_await col(v);
                break;
            }
        }
        for (int k = 0; k < x.nl; k++)
            if ((long)x.rec[k].size() != val) x.received_before_continue_bad++;
    }
}
static const char *emit_kind_names[] = {"value", "rvalue", "lvalue", "const-lvalue"};
static void run_emit(seqx::Runner &R, int nl, const std::vector<int> &kinds) {
    std::string nm = "emit-from-coroutine;listeners=" + std::to_string(nl) + ";calls=";
    for (size_t i = 0; i < kinds.size(); i++) nm += std::string(i ? "," : "") + emit_kind_names[kinds[i]];
    R.begin(nm);
    {
        EmitCtx x;
        x.nl = nl;
        {
            Sig sig;
            for (int k = 0; k < nl; k++) emit_listener(sig.get_emitter(), x, k).detach();
            emitting_coroutine(sig.get_collector(), x, kinds).detach();
            R.step(kinds.size());
        }  // last handle gone: listeners are cancelled
        if (x.received_before_continue_bad)
            R.fail("signal/listener-not-served-before-emitter-continues", "after `co_await collector(x)` returned, %d listener(s) had not received that value yet", x.received_before_continue_bad);
        for (int k = 0; k < nl && !R.case_fail; k++) {
            std::vector<int> want;
            for (size_t i = 0; i < kinds.size(); i++) want.push_back((int)i + 1);
            want.push_back(-1);
            if (x.rec[k] != want) {
                std::string got;
                for (int v : x.rec[k]) got += std::to_string(v) + " ";
                R.fail("signal/wrong-sequence", "listener %d of a coroutine emitter received [ %s], expected 1..%zu then the cancellation", k, got.c_str(), kinds.size());
            }
        }
        R.outcome(seqx::hash_str(nm));
        R.state(seqx::hash_str(nm));
    }
    R.end(true);
}
static void emit_enum(seqx::Runner &R, const std::string &want) {
    for (int nl = 1; nl <= 2; nl++)
        for (int a = 0; a < 4; a++)
            for (int b = -1; b < 4; b++)
                for (int c = -1; c < (b < 0 ? 0 : 4); c++) {
                    std::vector<int> kinds{a};
                    if (b >= 0) kinds.push_back(b);
                    if (c >= 0) kinds.push_back(c);
                    if (!want.empty()) {
                        std::string nm = "emit-from-coroutine;listeners=" + std::to_string(nl) + ";calls=";
                        for (size_t i = 0; i < kinds.size(); i++) nm += std::string(i ? "," : "") + emit_kind_names[kinds[i]];
                        if (nm == want) run_emit(R, nl, kinds);
                    } else if (R.next_case())
                        run_emit(R, nl, kinds);
                }
}

}  // namespace

void seqx_run(seqx::Runner &R, const std::string &tier) {
    seq_warmup();
    if (R.next_case()) run_void(R);
    emit_enum(R, "");
    for (int how = 0; how < 2; how++)
        if (R.next_case()) run_dead(R, how);
    Model m;
    std::vector<int> seq;
    dfs(R, tier == "quick" ? 5 : 6, seq, m);
}

void seqx_replay(seqx::Runner &R, const std::string &c) {
    seq_warmup();
    R.next_case();
    if (c.rfind("emit-from-coroutine;", 0) == 0) {
        emit_enum(R, c);
        return;
    }
    if (c == "void-signal") {
        run_void(R);
        return;
    }
    if (c.rfind("dead-signal", 0) == 0) {
        run_dead(R, c == "dead-signal-from-moved-collector");
        return;
    }
    std::vector<int> seq;
    std::stringstream ss(c.substr(c.find("ops=") + 4));
    std::string tok;
    while (std::getline(ss, tok, ','))
        for (int i = 0; i < NOPS; i++)
            if (tok == op_names[i]) seq.push_back(i);
    run_case(R, seq);
}

SEQX_MAIN()
