// C10 (sequential part) - bounded queue: every history over push / pop / unblock_push for limits 1..4 on the real
// cocls::limited_queue against a boring reference model (bounded FIFO + blocked-producer list + waiting-consumer list).
#include <cocls/future.h>
#include <cocls/queue.h>

#include <deque>
#include <memory>
#include <sstream>

#include "../engine/seqx/seqx.h"

namespace {

struct TestError : std::exception {
    int code;
    explicit TestError(int c) : code(c) {}
};

// item type with an observable lifetime: destruction and being moved from both poison the object, so an item that was
// taken from a dead or emptied element shows up as -7777 (and a live-instance counter must return to zero)
static long g_item_live;
struct Item {
    int v, chk;
    explicit Item(int x) : v(x), chk(~x) { ++g_item_live; }
    Item(Item &&o) noexcept : v(o.get()), chk(~v) {
        ++g_item_live;
        o.poison();
    }
    Item &operator=(Item &&o) noexcept {
        v = o.get();
        chk = ~v;
        o.poison();
        return *this;
    }
    Item(const Item &o) : v(o.get()), chk(~v) { ++g_item_live; }  // copying leaves the source as it is
    ~Item() {
        --g_item_live;
        poison();
    }
    void poison() {
        volatile int *p = &v, *q = &chk;
        *p = -7777;
        *q = 0;
    }
    int get() const { return chk == ~v ? v : -7777; }
};

enum Op { PUSH = 0, POP = 1, UNBLOCK = 2, NOPS = 3 };

// a completion function attached to every pop / push that has to wait: it runs when the operation is completed (inside
// the other party's push / pop / unblock_push) and looks at the queue - completions must run outside the queue's lock
struct ReenterAw : cocls::awaiter {
    void *q;
    size_t (*size_fn)(void *);
    int fired = 0;
    ReenterAw(void *qq, size_t (*fn)(void *)) : q(qq), size_fn(fn) {
        set_resume_fn([](cocls::awaiter *me, void *) noexcept -> cocls::suspend_point<void> {
            auto *s = static_cast<ReenterAw *>(me);
            s->fired++;
            if (s->q) (void)s->size_fn(s->q);
            return {};
        });
    }
};
static const char *op_names[] = {"push", "pop", "unblock_push"};

struct Model {
    size_t limit;
    std::deque<int> items;
    std::deque<std::pair<int, int>> blocked;  // (value, push id)
    std::deque<int> waiters;                  // pop ids
    // expected observable state of every future handed out so far
    std::vector<int> push_state;  // 0 pending, 1 done, 2 exception
    std::vector<int> pop_state;   // 0 pending, 1 value
    std::vector<int> pop_value;
    int next_val = 1;
    bool enabled(int op) const {
        int out_push = 0, out_pop = 0;
        for (int s : push_state) out_push += s == 0;
        for (int s : pop_state) out_pop += s == 0;
        if (op == PUSH) return out_push < 3;
        if (op == POP) return out_pop < 3;
        return true;
    }
    // returns expected immediate result of unblock (true/false) for UNBLOCK, else -1
    int apply(int op) {
        if (op == PUSH) {
            int v = next_val++;
            int id = (int)push_state.size();
            if (!waiters.empty()) {
                int w = waiters.front();
                waiters.pop_front();
                pop_state[w] = 1;
                pop_value[w] = v;
                push_state.push_back(1);
            } else if (items.size() < limit) {
                items.push_back(v);
                push_state.push_back(1);
            } else {
                blocked.push_back({v, id});
                push_state.push_back(0);
            }
            return -1;
        }
        if (op == POP) {
            if (!items.empty()) {
                int v = items.front();
                items.pop_front();
                pop_state.push_back(1);
                pop_value.push_back(v);
                if (!blocked.empty()) {
                    auto b = blocked.front();
                    blocked.pop_front();
                    items.push_back(b.first);
                    push_state[b.second] = 1;
                }
            } else {
                waiters.push_back((int)pop_state.size());
                pop_state.push_back(0);
                pop_value.push_back(0);
            }
            return -1;
        }
        if (blocked.empty()) return 0;
        auto b = blocked.front();
        blocked.pop_front();
        push_state[b.second] = 2;
        return 1;
    }
};

static std::string describe(size_t limit, const std::vector<int> &seq) {
    std::ostringstream o;
    o << "limit=" << limit << ";ops=";
    for (size_t i = 0; i < seq.size(); i++) o << (i ? "," : "") << op_names[seq[i]];
    return o.str();
}

static void run_case(seqx::Runner &R, size_t limit, const std::vector<int> &seq) {
    R.begin(describe(limit, seq));
    int64_t base = seqx::live_allocs();
    {
        Model m;
        m.limit = limit;
        g_item_live = 0;
        auto q = std::make_unique<cocls::limited_queue<Item>>(limit);
        std::vector<std::unique_ptr<cocls::future<void>>> pushes;
        std::vector<std::unique_ptr<cocls::future<Item>>> pops;
        std::vector<std::unique_ptr<ReenterAw>> watchers;
        auto watch = [&](auto &fut) {
            if (fut.ready()) return;
            seqx::NoCount nc;
            watchers.emplace_back(new ReenterAw(q.get(), [](void *p) { return static_cast<cocls::limited_queue<Item> *>(p)->size(); }));
            using F = std::remove_reference_t<decltype(fut)>;
            cocls::co_awaiter<F> aw(fut);
            if (!aw.subscribe(watchers.back().get())) watchers.back()->fired++;
        };
        int next_val = 1;
        auto compare = [&](size_t step) {
            for (size_t i = 0; i < pushes.size(); i++) {
                bool rdy = pushes[i]->ready();
                int st = 0;
                if (rdy) {
                    try {
                        pushes[i]->value();
                        st = 1;
                    } catch (const TestError &) {
                        st = 2;
                    } catch (...) {
                        st = 3;
                    }
                }
                if (st != m.push_state[i]) {
                    R.fail(m.push_state[i] == 0 ? "lq/push-completed-early" : st == 0 ? "lq/push-not-completed" : "lq/push-wrong-result",
                           "after step %zu: push #%zu is in state %d (0 pending,1 done,2 exception) but the model says %d; limit=%zu items=%zu", step, i, st,
                           m.push_state[i], limit, m.items.size());
                    return false;
                }
            }
            for (size_t i = 0; i < pops.size(); i++) {
                bool rdy = pops[i]->ready();
                if (rdy != (m.pop_state[i] == 1)) {
                    R.fail(rdy ? "lq/pop-completed-early" : "lq/pop-not-completed", "after step %zu: pop #%zu ready=%d, model says %d", step, i, (int)rdy,
                           m.pop_state[i]);
                    return false;
                }
                if (rdy) {
                    int v = -1;
                    try {
                        v = pops[i]->value().get();
                    } catch (...) {
                        v = -2;
                    }
                    if (v != m.pop_value[i]) {
                        R.fail("lq/pop-wrong-item", "after step %zu: pop #%zu delivered %d, expected %d (items must come out in push order, none lost or duplicated)",
                               step, i, v, m.pop_value[i]);
                        return false;
                    }
                }
            }
            size_t sz = q->size();
            if (sz != m.items.size() || q->empty() != m.items.empty()) {
                R.fail("lq/size", "after step %zu: size()=%zu empty()=%d, model holds %zu items", step, sz, (int)q->empty(), m.items.size());
                return false;
            }
            return true;
        };
        bool ok = true;
        for (size_t i = 0; i < seq.size() && ok; i++) {
            int op = seq[i];
            int exp = m.apply(op);
            R.step();
            if (op == PUSH) {
                int v = next_val++;
                if (v & 1)
                    pushes.emplace_back(new cocls::future<void>(q->push(Item(v))));
                else {
                    // a named item: push copies it; the producer's object stays usable whatever happens to this push
                    Item mine(v);
                    pushes.emplace_back(new cocls::future<void>(q->push(mine)));
                    if (mine.get() != v) {
                        R.fail("lq/push-consumed-lvalue", "step %zu: push(lvalue) left the producer's own item as %d instead of %d", i, mine.get(), v);
                        ok = false;
                    }
                }
                watch(*pushes.back());
            } else if (op == POP) {
                pops.emplace_back(new cocls::future<Item>(q->pop()));
                watch(*pops.back());
            } else {
                bool r = q->unblock_push(std::make_exception_ptr(TestError(7)));
                if ((int)r != exp) {
                    R.fail("lq/unblock-result", "step %zu: unblock_push returned %d, expected %d", i, (int)r, exp);
                    ok = false;
                }
            }
            if (ok) ok = compare(i);
            uint64_t key = seqx::mix(limit, m.items.size());
            key = seqx::mix(key, m.blocked.size());
            key = seqx::mix(key, m.waiters.size());
            for (int s : m.push_state) key = seqx::mix(key, (uint64_t)s);
            for (int s : m.pop_state) key = seqx::mix(key, (uint64_t)s + 7);
            R.state(key);
        }
        // teardown: destroying the queue cancels waiting pops and drops blocked pushes (their promises die)
        for (auto &w : watchers) w->q = nullptr;
        q.reset();
        if (ok)
            for (auto &w : watchers)
                if (w->fired != 1) {
                    R.fail(w->fired ? "lq/completion-fired-twice" : "lq/completion-never-fired", "a completion function attached to a waiting operation ran %d times", w->fired);
                    break;
                }
        {
            seqx::NoCount nc;
            watchers.clear();
            watchers.shrink_to_fit();
        }
        if (ok) {
            for (size_t i = 0; i < pops.size(); i++)
                if (!pops[i]->ready()) R.fail("lq/pop-hangs-after-destroy", "pop #%zu still pending after the queue was destroyed", i);
            for (size_t i = 0; i < pushes.size(); i++)
                if (!pushes[i]->ready()) R.fail("lq/push-hangs-after-destroy", "push #%zu still pending after the queue was destroyed", i);
        }
        // futures that are still pending cannot be destroyed; resolved ones can
        for (auto &p : pops)
            if (!p->ready()) (void)p.release();
        for (auto &p : pushes)
            if (!p->ready()) (void)p.release();
        R.outcome(seqx::mix(m.items.size(), m.blocked.size() * 16 + m.waiters.size()));
    }
    if (!R.case_fail && seqx::live_allocs() != base) R.fail("lq/allocation-balance", "%ld allocations not released", (long)(seqx::live_allocs() - base));
    if (!R.case_fail && g_item_live != 0) R.fail("lq/item-lifetime", "%ld items still alive (or destroyed twice) after teardown", g_item_live);
    R.end(true);
}

static void dfs(seqx::Runner &R, size_t limit, int depth, std::vector<int> &seq, const Model &m) {
    if (R.stop()) return;
    if ((int)seq.size() == depth) {
        if (R.next_case()) run_case(R, limit, seq);
        return;
    }
    for (int op = 0; op < NOPS; op++) {
        if (!m.enabled(op)) continue;
        Model m2 = m;
        m2.apply(op);
        seq.push_back(op);
        dfs(R, limit, depth, seq, m2);
        seq.pop_back();
    }
}

// ---------------------------------------------------------------------------------------------- constructor form of pushed items
// push(args...) is documented as emplace: the delivered item is what T(args...) builds - whether it went through the queue's
// storage, was handed to a waiting pop directly, or sat with a blocked producer. vector<int>(3, 7) tells T(...) from T{...}.
template <typename MakeQ>
static void ctorform_case(seqx::Runner &R, const char *qname, MakeQ makeq, const std::vector<int> &seq) {
    using V = std::vector<int>;
    std::ostringstream d;
    d << "ctorform;queue=" << qname << ";ops=";
    for (size_t i = 0; i < seq.size(); i++) d << (i ? "," : "") << (seq[i] ? "pop" : "push(3,7)");
    R.begin(d.str());
    {
        auto q = makeq();
        std::vector<std::unique_ptr<cocls::future<V>>> pops;
        std::vector<std::shared_ptr<void>> push_results;  // what push() returns (a future for a bounded queue) lives until the end
        auto do_push = [&] {
            using Ret = decltype(q->push(3, 7));
            if constexpr (std::is_void_v<Ret>)
                q->push(3, 7);
            else {
                seqx::NoCount nc;
                push_results.emplace_back(std::shared_ptr<void>(new Ret(q->push(3, 7))));
            }
        };
        int pushes = 0;
        for (int op : seq) {
            if (op) {
                seqx::NoCount nc;
                pops.emplace_back(new cocls::future<V>(q->pop()));
            } else {
                do_push();
                pushes++;
            }
            R.step();
        }
        while (pushes < (int)pops.size()) {
            do_push();
            pushes++;
        }
        while ((int)pops.size() < pushes) {
            seqx::NoCount nc;
            pops.emplace_back(new cocls::future<V>(q->pop()));
        }
        for (size_t i = 0; i < pops.size() && !R.case_fail; i++) {
            if (!pops[i]->ready()) {
                R.fail("q/pop-not-completed", "pop %zu did not complete although as many items were pushed as popped", i);
                break;
            }
            V &v = pops[i]->value();
            if (v != V(3, 7))
                R.fail("q/item-not-as-constructed", "push(3, 7) into a queue of vector<int> delivered %zu element(s), first %d - vector<int>(3, 7) is three sevens", v.size(), v.empty() ? -1 : v[0]);
        }
        seqx::NoCount nc;
        pops.clear();
        push_results.clear();
    }
    R.state(seqx::hash_str(d.str()));
    R.outcome(1);
    R.end(true);
}
template <typename MakeQ>
static void ctorform_enum(seqx::Runner &R, const char *qname, MakeQ makeq, int depth, std::vector<int> &seq, const std::string &want) {
    if (!seq.empty()) {
        std::string ops;
        for (size_t i = 0; i < seq.size(); i++) ops += std::string(i ? "," : "") + (seq[i] ? "pop" : "push(3,7)");
        std::string key = std::string("ctorform;queue=") + qname + ";ops=" + ops;
        if (want.empty() ? R.next_case() : key == want) ctorform_case(R, qname, makeq, seq);
    }
    if ((int)seq.size() >= depth || R.stop()) return;
    for (int op = 0; op < 2; op++) {
        seq.push_back(op);
        ctorform_enum(R, qname, makeq, depth, seq, want);
        seq.pop_back();
    }
}

static void ctorform_all(seqx::Runner &R, const std::string &want) {
    std::vector<int> seq;
    ctorform_enum(R, "limited_queue(limit=1)", [] { return std::make_unique<cocls::limited_queue<std::vector<int>>>(1); }, 4, seq, want);
    ctorform_enum(R, "limited_queue(limit=2)", [] { return std::make_unique<cocls::limited_queue<std::vector<int>>>(2); }, 5, seq, want);
}

}  // namespace

void seqx_run(seqx::Runner &R, const std::string &tier) {
    int depth = tier == "quick" ? 8 : 11;
    ctorform_all(R, "");
    for (size_t limit = 1; limit <= 4; limit++) {
        Model m;
        m.limit = limit;
        std::vector<int> seq;
        dfs(R, limit, depth, seq, m);
    }
}

void seqx_replay(seqx::Runner &R, const std::string &c) {
    if (c.rfind("ctorform;", 0) == 0) {
        ctorform_all(R, c);
        return;
    }
    size_t limit = (size_t)atoi(c.c_str() + c.find("limit=") + 6);
    std::vector<int> seq;
    std::string ops = c.substr(c.find("ops=") + 4);
    std::stringstream ss(ops);
    std::string tok;
    while (std::getline(ss, tok, ','))
        for (int i = 0; i < NOPS; i++)
            if (tok == op_names[i]) seq.push_back(i);
    R.next_case();
    run_case(R, limit, seq);
}

SEQX_MAIN()
