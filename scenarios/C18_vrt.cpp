// C18 (threaded part) - callback adapters when the awaited future resolves concurrently on another thread.
#include "common_vrt.h"
#include <cocls/callback_awaiter.h>
#include <cocls/coro_storage.h>
#include <cocls/future_conv.h>
#include <memory>

namespace {
enum Adapter { A_CB_AWAIT = 0, A_CB_AWAIT_ALLOC, A_MAKE_PROMISE, A_DISCARD, A_CONV_MEMBER, A_CONV_SP, A_CALL_FN, NADAPT };
static const char *ad_names[] = {"callback_await", "callback_await_alloc", "make_promise", "discard", "conv_member", "conv_sp", "call_fn"};
enum Outcome { O_VALUE = 0, O_EXC, O_DROP, NOUT };
static const char *out_names[] = {"value", "exception", "drop"};
// scratch: calls 0, kind 1, val 2
static void record(int kind, int val) {
    int64_t *s = vrt_scratch();
    s[0]++;
    s[1] = kind;
    s[2] = val;
}
static void classify(cocls::future<int> &f) {
    try {
        int v = f.value();
        record(1, v);
    } catch (const TestError &) {
        record(2, 0);
    } catch (const cocls::await_canceled_exception &) {
        record(3, 0);
    } catch (...) {
        record(9, 0);
    }
}
struct Conv {
    int conv(int &v) { return v * 10; }
    cocls::suspend_point<void> conv_sp(int &v, cocls::promise<int> &p) { return p(v * 10); }
};
struct Owner {
    cocls::suspend_point<void> done(cocls::future<int> &f) noexcept {
        classify(f);
        return {};
    }
};
static void resolve(cocls::promise<int> &p, int out) {
    if (out == O_VALUE)
        p(5);
    else if (out == O_EXC)
        p(std::make_exception_ptr(TestError(1)));
    else
        p(cocls::drop);
}

static void scenario(int ad, int out) {
    int64_t *s = vrt_scratch();
    {
        cocls::promise<int> saved;
        cocls::reusable_storage storage;
        Conv conv;
        Owner owner;
        cocls::future_conv<&Conv::conv> c1(&conv);
        cocls::future_conv<&Conv::conv_sp> c2(&conv);
        cocls::call_fn_future_awaiter<&Owner::done> cfa(owner);
        cocls::future<int> src;                  // used by callback_await (awaited by reference)
        std::unique_ptr<cocls::future<int>> outer;  // converters
        vstd::thread rt;
        auto start_resolver = [&] {
            rt = vstd::thread([&] {
                vrt_label("resolver");
                resolve(saved, out);
            });
        };
        auto fn = [](cocls::await_result<int> r) {
            try {
                record(1, *r);
            } catch (const TestError &) {
                record(2, 0);
            } catch (const cocls::await_canceled_exception &) {
                record(3, 0);
            } catch (...) {
                record(9, 0);
            }
        };
        bool is_conv = ad == A_CONV_MEMBER || ad == A_CONV_SP;
        switch (ad) {
            case A_CB_AWAIT:
            case A_CB_AWAIT_ALLOC:
                saved = src.get_promise();
                start_resolver();  // resolves while the registration below is in progress
                if (ad == A_CB_AWAIT)
                    cocls::callback_await<cocls::future<int> &>(fn, src);
                else
                    cocls::callback_await_alloc<cocls::reusable_storage, cocls::future<int> &>(storage, fn, src);
                break;
            case A_MAKE_PROMISE:
                saved = cocls::make_promise<int>([](cocls::future<int> &f) { classify(f); });
                start_resolver();
                break;
            case A_DISCARD:
                cocls::discard([&] {
                    return cocls::future<int>([&](cocls::promise<int> p) {
                        saved = std::move(p);
                        start_resolver();
                    });
                });
                break;
            case A_CONV_MEMBER:
                outer.reset(new cocls::future<int>(c1 << [&] {
                    return cocls::future<int>([&](cocls::promise<int> p) {
                        saved = std::move(p);
                        start_resolver();
                    });
                }));
                break;
            case A_CONV_SP:
                outer.reset(new cocls::future<int>(c2 << [&] {
                    return cocls::future<int>([&](cocls::promise<int> p) {
                        saved = std::move(p);
                        start_resolver();
                    });
                }));
                break;
            case A_CALL_FN:
                cfa << [&] {
                    return cocls::future<int>([&](cocls::promise<int> p) {
                        saved = std::move(p);
                        start_resolver();
                    });
                };
                break;
        }
        vrt_label("main-join-resolver");
        rt.join();
        vrt_label("main");
        int ek = out == O_VALUE ? 1 : out == O_EXC ? 2 : 3;
        if (is_conv) {
            vrt_label("main-wait-outer");
            outer->sync();
            vrt_label("main");
            classify(*outer);
            VRT_CHECK(s[1] == ek && (ek != 1 || s[2] == 50), "cb/converter-wrong-delivery", "outer future holds kind=%ld val=%ld, expected kind=%d", (long)s[1], (long)s[2], ek);
        } else if (ad != A_DISCARD) {
            vrt_label("main-wait-callback");
            while (!s[0]) vrt_yield();
            vrt_label("main");
            VRT_CHECK(s[0] == 1, "cb/fired-more-than-once", "completion ran %ld times", (long)s[0]);
            VRT_CHECK(s[1] == ek && (ek != 1 || s[2] == 5), "cb/wrong-outcome", "completion saw kind=%ld val=%ld, expected kind=%d", (long)s[1], (long)s[2], ek);
        }
        outer.reset();
        vrt_outcome("kind=%ld", (long)s[1]);
    }
}

// two threads complete one operation at the same moment (the promise of make_promise "can be called concurrently, only the first call
// is accepted"): the completion callback still runs exactly once, with the accepted call's outcome, and the helper is freed once
static void two_resolvers_scenario(int other) {
    int64_t *s = vrt_scratch();
    {
        auto fn = [](cocls::future<int> &f) { classify(f); };
        cocls::promise<int> p = cocls::make_promise<int>(fn);
        vstd::thread t1([&] {
            vrt_label("r0");
            vrt_scratch()[10] = p(5) ? 1 : 2;
        });
        vstd::thread t2([&] {
            vrt_label("r1");
            bool r = other == 0 ? bool(p(6)) : other == 1 ? bool(p(std::make_exception_ptr(TestError(1)))) : bool(p(cocls::drop));
            vrt_scratch()[11] = r ? 1 : 2;
        });
        t1.join();
        t2.join();
        VRT_CHECK((s[10] == 1) + (s[11] == 1) == 1, "cb/two-resolvers-accepted", "acceptance reports of the two calls: %ld %ld (exactly one must be accepted)", (long)s[10], (long)s[11]);
        VRT_CHECK(s[0] == 1, s[0] ? "cb/fired-more-than-once" : "cb/never-fired", "completion callback ran %ld times", (long)s[0]);
        int ek = s[10] == 1 ? 1 : other == 0 ? 1 : other == 1 ? 2 : 3;
        long ev = s[10] == 1 ? 5 : other == 0 ? 6 : 0;
        VRT_CHECK(s[1] == ek && s[2] == ev, "cb/wrong-outcome", "callback saw kind=%ld val=%ld, the accepted call supplied kind=%d val=%ld", (long)s[1], (long)s[2], ek, ev);
        vrt_outcome("winner=%d", s[10] == 1 ? 0 : 1);
    }
}

VRT_REGISTER(reg_cb) {
    for (int ad = 0; ad < NADAPT; ad++)
        for (int out = 0; out < NOUT; out++) vrt::add(std::string("cb_") + ad_names[ad] + "_" + out_names[out], [=] { scenario(ad, out); });
    for (int o = 0; o < 3; o++) vrt::add(std::string("cb_make_promise_two-resolvers_") + out_names[o], [=] { two_resolvers_scenario(o); });
}
}  // namespace
int main(int argc, char **argv) { return vrt_main(argc, argv); }
