// C18 (threaded part) - callback adapters when the awaited future resolves concurrently on another thread.
#include "common_vrt.h"
#include <cocls/callback_awaiter.h>
#include <cocls/coro_storage.h>
#include <cocls/future_conv.h>
#include <memory>

namespace {
enum Adapter { A_CB_AWAIT = 0, A_CB_AWAIT_ALLOC, A_MAKE_PROMISE, A_DISCARD, A_CONV_MEMBER, A_CONV_SP, A_CALL_FN, NADAPT };
static const char *ad_names[] = {"callback_await", "callback_await_alloc", "make_promise", "discard", "conv_member", "conv_sp", "call_fn"};
enum Outcome { O_VALUE = 0, O_EXC, O_DROP, NOUT };
static const char *out_names[] = {"value", "exception", "drop"};
// scratch: calls 0, kind 1, val 2
static void record(int kind, int val) {
    int64_t *s = vrt_scratch();
    s[0]++;
    s[1] = kind;
    s[2] = val;
}
static void classify(cocls::future<int> &f) {
    try {
        int v = f.value();
        record(1, v);
    } catch (const TestError &) {
        record(2, 0);
    } catch (const cocls::await_canceled_exception &) {
        record(3, 0);
    } catch (...) {
        record(9, 0);
    }
}
struct Conv {
    int conv(int &v) { return v * 10; }
    cocls::suspend_point<void> conv_sp(int &v, cocls::promise<int> &p) { return p(v * 10); }
};
struct Owner {
    cocls::suspend_point<void> done(cocls::future<int> &f) noexcept {
        classify(f);
        return {};
    }
};
static void resolve(cocls::promise<int> &p, int out) {
    if (out == O_VALUE)
        p(5);
    else if (out == O_EXC)
        p(std::make_exception_ptr(TestError(1)));
    else
        p(cocls::drop);
}

static void scenario(int ad, int out) {
    int64_t *s = vrt_scratch();
    {
        cocls::promise<int> saved;
        cocls::reusable_storage storage;
        Conv conv;
        Owner owner;
        cocls::future_conv<&Conv::conv> c1(&conv);
        cocls::future_conv<&Conv::conv_sp> c2(&conv);
        cocls::call_fn_future_awaiter<&Owner::done> cfa(owner);
        cocls::future<int> src;                  // used by callback_await (awaited by reference)
        std::unique_ptr<cocls::future<int>> outer;  // converters
        vstd::thread rt;
        auto start_resolver = [&] {
            rt = vstd::thread([&] {
                vrt_label("resolver");
                resolve(saved, out);
            });
        };
        auto fn = [](cocls::await_result<int> r) {
            try {
                record(1, *r);
            } catch (const TestError &) {
                record(2, 0);
            } catch (const cocls::await_canceled_exception &) {
                record(3, 0);
            } catch (...) {
                record(9, 0);
            }
        };
        bool is_conv = ad == A_CONV_MEMBER || ad == A_CONV_SP;
        switch (ad) {
            case A_CB_AWAIT:
            case A_CB_AWAIT_ALLOC:
                saved = src.get_promise();
                start_resolver();  // resolves while the registration below is in progress
                if (ad == A_CB_AWAIT)
                    cocls::callback_await<cocls::future<int> &>(fn, src);
                else
                    cocls::callback_await_alloc<cocls::reusable_storage, cocls::future<int> &>(storage, fn, src);
                break;
            case A_MAKE_PROMISE:
                saved = cocls::make_promise<int>([](cocls::future<int> &f) { classify(f); });
                start_resolver();
                break;
            case A_DISCARD:
                cocls::discard([&] {
                    return cocls::future<int>([&](cocls::promise<int> p) {
                        saved = std::move(p);
                        start_resolver();
                    });
                });
                break;
            case A_CONV_MEMBER:
                outer.reset(new cocls::future<int>(c1 << [&] {
                    return cocls::future<int>([&](cocls::promise<int> p) {
                        saved = std::move(p);
                        start_resolver();
                    });
                }));
                break;
            case A_CONV_SP:
                outer.reset(new cocls::future<int>(c2 << [&] {
                    return cocls::future<int>([&](cocls::promise<int> p) {
                        saved = std::move(p);
                        start_resolver();
                    });
                }));
                break;
            case A_CALL_FN:
                cfa << [&] {
                    return cocls::future<int>([&](cocls::promise<int> p) {
                        saved = std::move(p);
                        start_resolver();
                    });
                };
                break;
        }
        vrt_label("main-join-resolver");
        rt.join();
        vrt_label("main");
        int ek = out == O_VALUE ? 1 : out == O_EXC ? 2 : 3;
        if (is_conv) {
            vrt_label("main-wait-outer");
            outer->sync();
            vrt_label("main");
            classify(*outer);
            VRT_CHECK(s[1] == ek && (ek != 1 || s[2] == 50), "cb/converter-wrong-delivery", "outer future holds kind=%ld val=%ld, expected kind=%d", (long)s[1], (long)s[2], ek);
        } else if (ad != A_DISCARD) {
            vrt_label("main-wait-callback");
            while (!s[0]) vrt_yield();
            vrt_label("main");
            VRT_CHECK(s[0] == 1, "cb/fired-more-than-once", "completion ran %ld times", (long)s[0]);
            VRT_CHECK(s[1] == ek && (ek != 1 || s[2] == 5), "cb/wrong-outcome", "completion saw kind=%ld val=%ld, expected kind=%d", (long)s[1], (long)s[2], ek);
        }
        outer.reset();
        vrt_outcome("kind=%ld", (long)s[1]);
    }
}

VRT_REGISTER(reg_cb) {
    for (int ad = 0; ad < NADAPT; ad++)
        for (int out = 0; out < NOUT; out++) vrt::add(std::string("cb_") + ad_names[ad] + "_" + out_names[out], [=] { scenario(ad, out); });
}
}  // namespace
int main(int argc, char **argv) { return vrt_main(argc, argv); }
