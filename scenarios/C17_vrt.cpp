// C17 - shared_future: one result for all copies; the shared state lives exactly as long as needed.
#include "common_vrt.h"
#include <cocls/shared_future.h>
#include <memory>

namespace {

using SF = cocls::shared_future<Counted>;
enum Ctor { C_PROMISE_FN = 0, C_FUTURE_FN_PENDING, C_FUTURE_FN_READY, C_DEFAULT_GETPROMISE, C_PROMISE_FN_THREAD, C_FUTURE_FN_THREAD, C_SHIFT_PENDING, C_SHIFT_THREAD, C_REUSE, C_CORO, C_NK };
// shift*: init_if_needed(), a copy is taken, then `original << function returning a pending future`; the handle everybody uses is the
// copy made BEFORE the <<, the original dies right after it
static const char *ctor_names[] = {"promfn", "futfn", "futready", "getpromise", "promfn-thread", "futfn-thread", "shift", "shift-thread", "reuse", "coro"};
// coro: the function returns the future of an async coroutine that is suspended on a gate; the resolver opens the gate and the
// coroutine completes with a value or an exception (a coroutine-bound future has no promise object anybody holds)
// reuse: a shared_future that was constructed pending and has been resolved is given a new pending future with operator<<
// ("future is destroyed and recreated"): it is pending again and behaves like a fresh one
// assign: the resolver move-assigns an empty promise over the one it holds; dtor: it lets the promise die. Both resolve to no-value.
enum RKind { R_VAL = 0, R_EXC, R_DROP, R_ASSIGN, R_DTOR, R_NK };
static const char *rk_names[] = {"val", "exc", "drop", "assign", "dtor"};
enum Script { S_WAIT = 0, S_CORO, S_COPYDROP, S_DROP, S_POLL, S_CBFN, S_NK };
static const char *sc_names[] = {"wait", "coro", "copydrop", "drop", "poll", "cbfn"};
enum MainDrop { M_EARLY = 0, M_LATE };

enum { S_REL = 0, S_KIND = 4, S_VAL = 8 };

static void record(int id, int kind, long val) {
    int64_t *s = vrt_scratch();
    s[S_REL + id]++;
    s[S_KIND + id] = kind;
    s[S_VAL + id] = val;
}
static void observe(SF &h, int id) {
    try {
        Counted &c = h.value();
        if (!c.ok()) vrt_fail("shared_future/torn-value", "value with broken checksum");
        record(id, 1, c.a);
    } catch (const TestError &e) {
        record(id, 2, e.code);
    } catch (const cocls::await_canceled_exception &) {
        record(id, 3, 0);
    } catch (const cocls::value_not_ready_exception &) {
        record(id, 4, 0);
    }
}
static cocls::async<void> coro(SF h, int id) {
    try {
        Counted &c = co_await h;
        if (!c.ok()) vrt_fail("shared_future/torn-value", "value with broken checksum");
        record(id, 1, c.a);
    } catch (const TestError &e) {
        record(id, 2, e.code);
    } catch (const cocls::await_canceled_exception &) {
        record(id, 3, 0);
    }
}

// callback-flavoured await on a copy (what co_await pool(copy) / parallel(copy) do): await_ready, then
// await_suspend(fn, ctx); the callback - or the caller itself when nothing was registered - observes the result
struct CbFnCtx {
    SF *h;
    int id;
};
static cocls::suspend_point<void> cbfn_done(cocls::awaiter *, void *p) noexcept {
    auto *c = static_cast<CbFnCtx *>(p);
    observe(*c->h, c->id);
    return {};
}

static cocls::async<Counted> coro_source(cocls::future<void> &gate, bool thr) {
    co_await gate;
    if (thr) throw TestError(77);
    co_return Counted(42);
}

static void handle_thread(SF h, int id, int script) {
    static const char *labels[] = {"h0", "h1", "h2"};
    vrt_label(labels[id]);
    switch (script) {
        case S_WAIT:
            h.sync();
            observe(h, id);
            break;
        case S_CORO: coro(h, id).detach(); break;  // the coroutine keeps its own copy; ours dies at return
        case S_COPYDROP: {
            SF c = h;
            h = SF();
            c.sync();
            observe(c, id);
            break;
        }
        case S_DROP: record(id, 0, 0); break;  // handle dies while possibly pending
        case S_CBFN: {
            // the copy, the awaiter and the context live on the heap until the scenario ends (the callback may run on the
            // resolver's thread after this thread has returned)
            auto *hc = new SF(h);
            auto *ctx = new CbFnCtx{hc, id};
            auto *aw = new auto(hc->operator co_await());
            if (aw->await_ready())
                observe(*hc, id);
            else if (!aw->await_suspend(&cbfn_done, ctx))
                observe(*hc, id);
            vrt_scratch()[20 + id] = (int64_t)(intptr_t)aw;
            vrt_scratch()[24 + id] = (int64_t)(intptr_t)ctx;
            vrt_scratch()[28 + id] = (int64_t)(intptr_t)hc;
            break;
        }
        case S_POLL:
            while (!h.ready()) vrt_yield();
            observe(h, id);
            break;
    }
}

static void scenario(int ctor, int rk, int nh, const int *scripts, int main_drop) {
    int64_t *s = vrt_scratch();
    {
        cocls::promise<Counted> saved;
        cocls::future<void> gate;
        cocls::promise<void> gate_p = gate.get_promise();
        std::unique_ptr<SF> sf;
        vstd::thread early_rt;  // resolver started from inside the constructor's function: races with the rest of the construction
        auto resolve_now = [rk](cocls::promise<Counted> p) {
            return [rk, p = std::move(p)]() mutable {
                vrt_label("resolver");
                switch (rk) {
                    case R_VAL: p(Counted(42)); break;
                    case R_EXC: p(std::make_exception_ptr(TestError(77))); break;
                    case R_ASSIGN: p = cocls::promise<Counted>(); break;
                    case R_DTOR: {
                        cocls::promise<Counted> q(std::move(p));
                        break;
                    }
                    default: p(cocls::drop); break;
                }
            };
        };
        switch (ctor) {
            case C_PROMISE_FN_THREAD: sf.reset(new SF([&](cocls::promise<Counted> p) { early_rt = vstd::thread(resolve_now(std::move(p))); })); break;
            case C_FUTURE_FN_THREAD:
                sf.reset(new SF([&] { return cocls::future<Counted>([&](cocls::promise<Counted> p) { early_rt = vstd::thread(resolve_now(std::move(p))); }); }));
                break;
            case C_PROMISE_FN: sf.reset(new SF([&](cocls::promise<Counted> p) { saved = std::move(p); })); break;
            case C_FUTURE_FN_PENDING:
                sf.reset(new SF([&] { return cocls::future<Counted>([&](cocls::promise<Counted> p) { saved = std::move(p); }); }));
                break;
            case C_FUTURE_FN_READY:
                if (rk == R_VAL)
                    sf.reset(new SF([] { return cocls::future<Counted>::set_value(Counted(42)); }));
                else if (rk == R_EXC)
                    sf.reset(new SF([] { return cocls::future<Counted>::set_exception(std::make_exception_ptr(TestError(77))); }));
                else
                    sf.reset(new SF([] { return cocls::future<Counted>::set_not_value(); }));
                break;
            case C_DEFAULT_GETPROMISE:
                sf.reset(new SF());
                saved = sf->get_promise();
                break;
            case C_SHIFT_PENDING: {
                SF orig;
                orig.init_if_needed();
                sf.reset(new SF(orig));
                orig << [&] { return cocls::future<Counted>([&](cocls::promise<Counted> p) { saved = std::move(p); }); };
                break;
            }
            case C_CORO: sf.reset(new SF([&] { return cocls::future<Counted>(coro_source(gate, rk == R_EXC)); })); break;
            case C_REUSE: {
                cocls::promise<Counted> first;
                sf.reset(new SF([&](cocls::promise<Counted> p) { first = std::move(p); }));
                first(Counted(1));
                *sf << [&] { return cocls::future<Counted>([&](cocls::promise<Counted> p) { saved = std::move(p); }); };
                break;
            }
            case C_SHIFT_THREAD: {
                SF orig;
                orig.init_if_needed();
                sf.reset(new SF(orig));
                orig << [&] { return cocls::future<Counted>([&](cocls::promise<Counted> p) { early_rt = vstd::thread(resolve_now(std::move(p))); }); };
                break;
            }
        }
        vstd::thread ht[3], rt;
        for (int i = 0; i < nh; i++) ht[i] = vstd::thread(handle_thread, *sf, i, scripts[i]);
        if (main_drop == M_EARLY) sf.reset();
        rt = vstd::thread([&] {
            vrt_label("resolver");
            if (ctor == C_FUTURE_FN_READY || ctor == C_PROMISE_FN_THREAD || ctor == C_FUTURE_FN_THREAD || ctor == C_SHIFT_THREAD) return;
            if (ctor == C_CORO) {
                gate_p();  // the coroutine runs to its end on this thread and resolves the shared state
                return;
            }
            switch (rk) {
                case R_VAL: saved(Counted(42)); break;
                case R_EXC: saved(std::make_exception_ptr(TestError(77))); break;
                case R_ASSIGN: saved = cocls::promise<Counted>(); break;
                case R_DTOR: {
                    cocls::promise<Counted> q(std::move(saved));
                    break;
                }
                default: saved(cocls::drop); break;
            }
        });
        if (main_drop == M_LATE) {
            // main keeps its handle across the resolution and reads it too
            sf->sync();
            observe(*sf, 3);
        }
        rt.join();
        if (early_rt.joinable()) early_rt.join();
        vrt_label("main-join-handles");
        for (int i = 0; i < nh; i++) ht[i].join();
        vrt_label("main");
        sf.reset();
        for (int i = 0; i < nh; i++)
            if (scripts[i] == S_CBFN) {
                // the callback runs on whichever thread resolves; wait for it before the equipment is freed
                vrt_label("main-wait-callback");
                while (!s[S_REL + i]) vrt_yield();
                vrt_label("main");
                using AW = decltype(std::declval<SF &>().operator co_await());
                delete reinterpret_cast<AW *>((intptr_t)s[20 + i]);
                delete reinterpret_cast<CbFnCtx *>((intptr_t)s[24 + i]);
                delete reinterpret_cast<SF *>((intptr_t)s[28 + i]);
            }
        int ek = rk == R_VAL ? 1 : rk == R_EXC ? 2 : 3;
        long ev = rk == R_VAL ? 42 : rk == R_EXC ? 77 : 0;
        for (int i = 0; i < 4; i++) {
            bool expect_obs = (i < nh && scripts[i] != S_DROP) || (i == 3 && main_drop == M_LATE);
            if (!expect_obs) continue;
            VRT_CHECK(s[S_REL + i] != 0, "shared_future/lost-wakeup", "observer %d never saw the result", i);
            VRT_CHECK(s[S_REL + i] == 1, "shared_future/duplicate-wakeup", "observer %d was released %ld times", i, (long)s[S_REL + i]);
            VRT_CHECK(s[S_KIND + i] == ek && s[S_VAL + i] == ev, "shared_future/different-results", "observer %d saw kind=%ld val=%ld, expected kind=%d val=%ld", i,
                      (long)s[S_KIND + i], (long)s[S_VAL + i], ek, ev);
        }
    }
    VRT_CHECK(Counted::live() == 0, "shared_future/value-lifetime", "%ld stored values alive after every handle and the resolver are gone", (long)Counted::live());
    vrt_outcome("ok");
}

VRT_REGISTER(reg_sf) {
    for (int ctor = 0; ctor < C_NK; ctor++)
        for (int rk = 0; rk < R_NK; rk++)
            for (int md = 0; md < 2; md++) {
                if (rk >= R_ASSIGN && ctor == C_FUTURE_FN_READY) continue;  // nothing left to resolve
                if (ctor == C_CORO && rk != R_VAL && rk != R_EXC) continue;     // a coroutine ends with a value or an exception
                // one handle thread: every script
                for (int a = 0; a < S_NK; a++) {
                    std::string name = std::string("sf1_") + ctor_names[ctor] + "_" + rk_names[rk] + "_" + sc_names[a] + (md ? "_late" : "_early");
                    vrt::add(name, [=] {
                        int sc[3] = {a, 0, 0};
                        scenario(ctor, rk, 1, sc, md);
                    });
                }
                // two handle threads: pairs
                for (int a = 0; a < S_NK; a++)
                    for (int b = a; b < S_NK; b++) {
                        if (rk >= R_ASSIGN && !(a == S_WAIT && b == S_CORO)) continue;  // the no-value flavours: one pair is enough
                        std::string name = std::string("sf2_") + ctor_names[ctor] + "_" + rk_names[rk] + "_" + sc_names[a] + "-" + sc_names[b] + (md ? "_late" : "_early");
                        vrt::add(name, [=] {
                            int sc[3] = {a, b, 0};
                            scenario(ctor, rk, 2, sc, md);
                        });
                    }
            }
    // copies made after init_if_needed() share the state that get_promise() later resolves
    vrt::add("sf_init_copy_getpromise", [] {
        {
            SF a;
            a.init_if_needed();
            SF b = a;
            cocls::promise<Counted> p = a.get_promise();
            SF c = a;
            p(Counted(5));
            VRT_CHECK(a.ready() && a.value().a == 5, "shared_future/getpromise-not-working", "original not resolved by its own promise");
            VRT_CHECK(b.ready() && b.value().a == 5, "shared_future/different-results", "a copy made after init_if_needed() does not observe the result (ready=%d)", (int)b.ready());
            VRT_CHECK(c.ready() && c.value().a == 5, "shared_future/different-results", "a copy made after get_promise() does not observe the result");
        }
        VRT_CHECK(Counted::live() == 0, "shared_future/value-lifetime", "%ld stored values alive at the end", (long)Counted::live());
        vrt_outcome("ok");
    });
    // reference result: every copy refers to the very object the resolver supplied (resolved by another thread)
    vrt::add("sf_reference_identity", [] {
        static Counted target(7);
        {
            using SFR = cocls::shared_future<Counted &>;
            cocls::promise<Counted &> saved;
            SFR a([&](cocls::promise<Counted &> p) { saved = std::move(p); });
            SFR b = a;
            vstd::thread rt([&] {
                vrt_label("resolver");
                saved(target);
            });
            a.sync();
            Counted &ra = a.value();
            rt.join();
            SFR c = b;
            Counted &rb = b.value();
            Counted &rc = c.value();
            VRT_CHECK(&ra == &target && &rb == &target && &rc == &target, "shared_future/different-results", "copies of a reference result refer to %p %p %p, the resolver supplied %p", (void *)&ra,
                      (void *)&rb, (void *)&rc, (void *)&target);
            target.a = 8;
            target.b = ~8L;
            VRT_CHECK(b.value().a == 8, "shared_future/different-results", "a change of the referred object is not seen through a copy");
            target.a = 7;
            target.b = ~7L;
        }
        vrt_outcome("ok");
    });
    // copy-before-init: copies of a default-constructed shared_future are independent empty handles
    vrt::add("sf_copy_before_init", [] {
        SF a;
        SF b = a;
        VRT_CHECK(!a.ready() && !b.ready(), "shared_future/default-ready", "default constructed shared_future reports ready");
        cocls::promise<Counted> p = a.get_promise();
        p(Counted(5));
        VRT_CHECK(a.ready(), "shared_future/getpromise-not-working", "get_promise() pair did not resolve the future");
        VRT_CHECK(a.value().a == 5, "shared_future/getpromise-not-working", "wrong value");
        VRT_CHECK(!b.ready(), "shared_future/copy-before-init-shares", "copy made before initialisation became ready");
        vrt_outcome("ok");
    });
}

}  // namespace

int main(int argc, char **argv) { return vrt_main(argc, argv); }
