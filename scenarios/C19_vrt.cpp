// C19 (threaded part) - reusable_storage_mtsafe: two threads create and finish coroutines on one storage.
// The block must never be owned by two simultaneously live frames (canaries + happens-before race oracle: frame memory
// handed from one thread to the next must be ordered), heap fallback freed once (heap oracle).
#include "common_vrt.h"
#include <cocls/coro_storage.h>
#include <cocls/with_allocator.h>
#include <cstring>
#include <memory>

namespace {

using St = cocls::reusable_storage_mtsafe;

template <int N>
static cocls::with_allocator<St, cocls::async<void>> frame_coro(St &, cocls::future<void> *gate, int tag, int *result) {
    char buf[N];
    memset(buf, tag, N);
    if (gate) co_await *gate;
    bool ok = true;
    for (int i = 0; i < N; i++) ok &= buf[i] == (char)tag;
    *result = ok ? 1 : 2;
}

static void worker(St &st, int id, int rounds, int suspend) {
    static const char *labels[] = {"t0", "t1", "t2"};
    vrt_label(labels[id]);
    for (int r = 0; r < rounds; r++) {
        int result = 0;
        if (suspend) {
            cocls::future<void> gate;
            cocls::promise<void> p = gate.get_promise();
            frame_coro<64>(st, &gate, 10 * id + r + 1, &result).detach();  // frame is live and suspended
            p();                                                           // finish it
        } else
            frame_coro<64>(st, nullptr, 10 * id + r + 1, &result).detach();
        if (result != 1) vrt_fail("storage/frame-memory-clobbered", "thread %d round %d: frame buffer was overwritten while the frame was live (result %d)", id, r, result);
        vrt_scratch()[id]++;
    }
}

static void scenario(int nthreads, int rounds, int suspend) {
    {
        auto st = std::make_unique<St>();
        vstd::thread th[3];
        for (int i = 0; i < nthreads; i++) th[i] = vstd::thread(worker, std::ref(*st), i, rounds, suspend);
        for (int i = 0; i < nthreads; i++) th[i].join();
        for (int i = 0; i < nthreads; i++) VRT_CHECK(vrt_scratch()[i] == rounds, "storage/harness", "thread %d completed %ld rounds", i, (long)vrt_scratch()[i]);
    }
    vrt_outcome("done");
}

VRT_REGISTER(reg_storage) {
    for (int n = 2; n <= 3; n++)
        for (int rounds = 1; rounds <= 2; rounds++)
            for (int susp = 0; susp < 2; susp++) {
                std::string name = "mtsafe_t" + std::to_string(n) + "_r" + std::to_string(rounds) + (susp ? "_suspending" : "_straight");
                vrt::add(name, [=] { scenario(n, rounds, susp); });
            }
}

}  // namespace

int main(int argc, char **argv) { return vrt_main(argc, argv); }
