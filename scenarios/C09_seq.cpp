// C09 (sequential part) - awaitable queue: every history over push / pop / unblock_pop / reap / destroy on the real
// cocls::queue<int>, queue<MoveOnly>, queue<void> against a reference model (item list + waiter list).
#include <cocls/future.h>
#include <cocls/queue.h>

#include <deque>
#include <memory>
#include <sstream>
#include <stdexcept>

#include "../engine/seqx/seqx.h"

namespace {

struct TestError : std::exception {
    int code;
    explicit TestError(int c) : code(c) {}
};
static long g_mo_live;
struct MoveOnly {
    int v = -1;
    bool owns = false;
    MoveOnly() = default;
    explicit MoveOnly(int x) : v(x), owns(true) { ++g_mo_live; }
    MoveOnly(MoveOnly &&o) noexcept : v(o.v), owns(o.owns) { o.owns = false; }
    MoveOnly &operator=(MoveOnly &&o) noexcept {
        if (owns) --g_mo_live;
        v = o.v;
        owns = o.owns;
        o.owns = false;
        return *this;
    }
    MoveOnly(const MoveOnly &) = delete;
    ~MoveOnly() {
        if (owns) --g_mo_live;
    }
};

enum Op { PUSH = 0, POP, UNBLOCK, REAP, DESTROY, POPCB, NOPS };
static const char *op_names[] = {"push", "pop", "unblock_pop", "reap", "destroy", "pop-by-callback-consumer"};
static const char *ty_names[] = {"int", "moveonly", "void", "tracked"};

struct Model {
    std::deque<int> items;
    std::deque<int> waiters;     // pop ids waiting, arrival order
    std::vector<int> pop_state;  // 0 pending, 1 value, 2 exception(unblock), 3 cancelled, 4 reaped
    std::vector<int> pop_value;
    std::vector<bool> pop_cb;    // issued by the callback consumer (one re-used call_fn_future_awaiter, one pop at a time)
    int next_val = 1;
    bool destroyed = false;
    bool enabled(int op) const {
        if (destroyed) return false;
        int out = 0, reapable = 0;
        for (int s : pop_state) {
            out += s == 0;
        }
        for (size_t i = 0; i < pop_state.size(); i++) reapable += (pop_state[i] >= 1 && pop_state[i] <= 3 && !pop_cb[i]);
        if (op == POP) return out < 3;
        if (op == POPCB) {
            for (size_t i = 0; i < pop_state.size(); i++)
                if (pop_cb[i] && pop_state[i] == 0) return false;  // its previous pop is still waiting
            return out < 3;
        }
        if (op == REAP) return reapable > 0;
        return true;
    }
    int apply(int op) {  // returns expected bool result of push/unblock, else -1
        switch (op) {
            case PUSH: {
                int v = next_val++;
                if (!waiters.empty()) {
                    int w = waiters.front();
                    waiters.pop_front();
                    pop_state[w] = 1;
                    pop_value[w] = v;
                    return 1;
                }
                items.push_back(v);
                return 0;
            }
            case POP:
            case POPCB:
                pop_cb.push_back(op == POPCB);
                if (!items.empty()) {
                    pop_state.push_back(1);
                    pop_value.push_back(items.front());
                    items.pop_front();
                } else {
                    waiters.push_back((int)pop_state.size());
                    pop_state.push_back(0);
                    pop_value.push_back(0);
                }
                return -1;
            case UNBLOCK: {
                if (waiters.empty()) return 0;
                int w = waiters.front();
                waiters.pop_front();
                pop_state[w] = 2;
                return 1;
            }
            case REAP:
                for (size_t i = 0; i < pop_state.size(); i++)
                    if (pop_state[i] >= 1 && pop_state[i] <= 3 && !pop_cb[i]) {
                        pop_state[i] = 4;
                        break;
                    }
                return -1;
            default:
                destroyed = true;
                for (int w : waiters) pop_state[w] = 3;
                waiters.clear();
                return -1;
        }
    }
};

// copyable item whose moved-from and destroyed states are visible; pushed as a named object every other time: push copies
// it, whatever branch it takes, and the producer's object stays intact
static long g_tr_live;
static int g_tr_lvalue_consumed;
struct Tracked {
    int v = -1, chk = 0;
    Tracked() { ++g_tr_live; }
    explicit Tracked(int x) : v(x), chk(~x) { ++g_tr_live; }
    Tracked(const Tracked &o) : v(o.get()), chk(~v) { ++g_tr_live; }
    Tracked(Tracked &&o) noexcept : v(o.get()), chk(~v) {
        ++g_tr_live;
        o.poison();
    }
    Tracked &operator=(const Tracked &o) {
        v = o.get();
        chk = ~v;
        return *this;
    }
    Tracked &operator=(Tracked &&o) noexcept {
        v = o.get();
        chk = ~v;
        o.poison();
        return *this;
    }
    ~Tracked() {
        --g_tr_live;
        poison();
    }
    void poison() {
        volatile int *p = &v, *q = &chk;
        *p = -7777;
        *q = 0;
    }
    int get() const { return chk == ~v ? v : -7777; }
};
template <typename T>
struct Val;
template <>
struct Val<Tracked> {
    static bool push(cocls::queue<Tracked> &q, int v) {
        if (v & 1) return q.push(Tracked(v));
        Tracked mine(v);
        bool r = q.push(mine);
        if (mine.get() != v) g_tr_lvalue_consumed++;
        return r;
    }
    static int read(cocls::future<Tracked> &f) { return f.value().get(); }
};
template <>
struct Val<int> {
    static bool push(cocls::queue<int> &q, int v) { return q.push(v); }
    static int read(cocls::future<int> &f) { return f.value(); }
};
template <>
struct Val<MoveOnly> {
    static bool push(cocls::queue<MoveOnly> &q, int v) { return q.push(MoveOnly(v)); }
    static int read(cocls::future<MoveOnly> &f) {
        MoveOnly &m = f.value();
        return m.owns ? m.v : -77;
    }
};
template <>
struct Val<void> {
    static bool push(cocls::queue<void> &q, int) { return q.push(); }
    static int read(cocls::future<void> &f) {
        f.value();
        return 0;
    }
};

static std::string describe(int ty, const std::vector<int> &seq) {
    std::ostringstream o;
    o << "type=" << ty_names[ty] << ";ops=";
    for (size_t i = 0; i < seq.size(); i++) o << (i ? "," : "") << op_names[seq[i]];
    return o.str();
}

// consumer that is not a coroutine: one call_fn_future_awaiter, re-used for every pop it issues
template <typename T>
struct CbConsumer {
    cocls::queue<T> *q = nullptr;  // the completion function looks at the queue it is served from (re-entrance)
    std::vector<int> st, val;  // per completed pop, in completion order
    cocls::suspend_point<void> done(cocls::future<T> &f) noexcept {
        int s = 9, v = 0;
        try {
            v = Val<T>::read(f);
            s = 1;
        } catch (const TestError &) {
            s = 2;
        } catch (const cocls::await_canceled_exception &) {
            s = 3;
        } catch (...) {
        }
        if (q) (void)q->size();  // must not dead-lock: completions run outside the queue's lock
        seqx::NoCount nc;
        st.push_back(s);
        val.push_back(v);
        return {};
    }
};

template <typename T>
static void run_case(seqx::Runner &R, int ty, const std::vector<int> &seq) {
    R.begin(describe(ty, seq));
    int64_t base = seqx::live_allocs();
    g_mo_live = 0;
    g_tr_live = 0;
    g_tr_lvalue_consumed = 0;
    {
        Model m;
        auto q = std::make_unique<cocls::queue<T>>();
        std::vector<std::unique_ptr<cocls::future<T>>> pops;
        std::unique_ptr<CbConsumer<T>> cbc;
        std::unique_ptr<cocls::call_fn_future_awaiter<&CbConsumer<T>::done>> cbaw;
        {
            seqx::NoCount nc;  // the consumer is harness equipment
            cbc.reset(new CbConsumer<T>());
            cbc->q = q.get();
            cbaw.reset(new cocls::call_fn_future_awaiter<&CbConsumer<T>::done>(*cbc));
        }
        std::vector<int> cb_index;  // model pop id -> index in the consumer's completion log (-1 not completed when issued)
        int next_val = 1;
        bool ok = true;
        auto compare = [&](size_t step) {
            for (size_t i = 0; i < pops.size(); i++) {
                if (m.pop_state[i] == 4) continue;
                int st = 0, v = 0;
                if (m.pop_cb[i]) {
                    // the k-th pop issued by the callback consumer is the k-th entry of its completion log (one at a time)
                    size_t k = (size_t)cb_index[i];
                    if (k < cbc->st.size()) {
                        st = cbc->st[k];
                        v = cbc->val[k];
                    }
                    if (cbc->st.size() > k + 1 && (size_t)cb_index.back() == k && i + 1 == pops.size())
                        R.fail("q/callback-fired-twice", "after step %zu: the callback consumer was called %zu times for %zu pops", step, cbc->st.size(), k + 1);
                } else if (pops[i]->ready()) {
                    try {
                        v = Val<T>::read(*pops[i]);
                        st = 1;
                    } catch (const TestError &) {
                        st = 2;
                    } catch (const cocls::await_canceled_exception &) {
                        st = 3;
                    } catch (...) {
                        st = 9;
                    }
                }
                if (st != m.pop_state[i]) {
                    R.fail(st == 0 ? "q/pop-not-completed" : m.pop_state[i] == 0 ? "q/pop-completed-early" : "q/pop-wrong-outcome",
                           "after step %zu: pop #%zu is in state %d (0 pending,1 value,2 unblock exception,3 cancelled) but the model says %d", step, i, st, m.pop_state[i]);
                    return false;
                }
                int expect = std::is_void_v<T> ? 0 : m.pop_value[i];
                if (st == 1 && v != expect) {
                    R.fail("q/pop-wrong-item", "after step %zu: pop #%zu delivered %d, expected %d", step, i, v, expect);
                    return false;
                }
            }
            if (!m.destroyed) {
                size_t sz = q->size();
                if (sz != m.items.size() || q->empty() != m.items.empty()) {
                    R.fail("q/size", "after step %zu: size()=%zu empty()=%d but the model holds %zu items", step, sz, (int)q->empty(), m.items.size());
                    return false;
                }
            }
            return true;
        };
        for (size_t i = 0; i < seq.size() && ok; i++) {
            int op = seq[i];
            int exp = m.apply(op);
            R.step();
            switch (op) {
                case PUSH: {
                    bool r = Val<T>::push(*q, next_val++);
                    if ((int)r != exp) {
                        R.fail("q/push-result", "step %zu: push returned %d, expected %d", i, (int)r, exp);
                        ok = false;
                    }
                    break;
                }
                case POP:
                    pops.emplace_back(new cocls::future<T>(q->pop()));
                    cb_index.push_back(-1);
                    break;
                case POPCB: {
                    int k = 0;
                    for (size_t j = 0; j < m.pop_cb.size() - 1; j++) k += m.pop_cb[j];
                    pops.emplace_back(nullptr);
                    cb_index.push_back(k);
                    *cbaw << [&] { return q->pop(); };
                    break;
                }
                case UNBLOCK: {
                    bool r = q->unblock_pop(std::make_exception_ptr(TestError(5)));
                    if ((int)r != exp) {
                        R.fail("q/unblock-result", "step %zu: unblock_pop returned %d, expected %d", i, (int)r, exp);
                        ok = false;
                    }
                    break;
                }
                case REAP:
                    for (size_t k = 0; k < pops.size(); k++)
                        if (pops[k] && m.pop_state[k] == 4) pops[k].reset();
                    break;
                default:
                    cbc->q = nullptr;  // completions caused by the destruction must not touch the dying queue
                    q.reset();
                    break;
            }
            if (ok) ok = compare(i);
            uint64_t key = seqx::mix((uint64_t)ty, m.items.size());
            key = seqx::mix(key, m.waiters.size() * 2 + m.destroyed);
            for (int s : m.pop_state) key = seqx::mix(key, (uint64_t)s);
            R.state(key);
        }
        cbc->q = nullptr;
        q.reset();
        {
            size_t issued = 0;
            for (bool b : m.pop_cb) issued += b;
            if (ok && cbc->st.size() != issued) R.fail("q/callback-count", "the callback consumer issued %zu pops and was called %zu times", issued, cbc->st.size());
            seqx::NoCount nc;
            cbaw.reset();
            cbc.reset();
        }
        for (size_t k = 0; k < pops.size(); k++)
            if (pops[k] && !pops[k]->ready()) {
                if (ok) R.fail("q/pop-hangs-after-destroy", "pop #%zu still pending after the queue was destroyed", k);
                (void)pops[k].release();
            }
        R.outcome(seqx::mix(m.items.size(), m.waiters.size()));
    }
    if (!R.case_fail && seqx::live_allocs() != base) R.fail("q/allocation-balance", "%ld allocations not released", (long)(seqx::live_allocs() - base));
    if (!R.case_fail && g_mo_live != 0) R.fail("q/item-lifetime", "%ld move-only items still alive after teardown", g_mo_live);
    if (!R.case_fail && g_tr_live != 0) R.fail("q/item-lifetime", "%ld tracked items still alive (or destroyed twice) after teardown", g_tr_live);
    if (!R.case_fail && g_tr_lvalue_consumed) R.fail("q/push-consumed-lvalue", "push(lvalue) changed the producer's own object %d times", g_tr_lvalue_consumed);
    R.end(true);
}

static void run_ty(seqx::Runner &R, int ty, const std::vector<int> &seq) {
    if (ty == 0)
        run_case<int>(R, ty, seq);
    else if (ty == 1)
        run_case<MoveOnly>(R, ty, seq);
    else if (ty == 3)
        run_case<Tracked>(R, ty, seq);
    else
        run_case<void>(R, ty, seq);
}

static void dfs(seqx::Runner &R, int ty, int depth, std::vector<int> &seq, const Model &m) {
    if (R.stop()) return;
    if ((int)seq.size() == depth || m.destroyed) {
        if (R.next_case()) run_ty(R, ty, seq);
        return;
    }
    for (int op = 0; op < NOPS; op++) {
        if (!m.enabled(op)) continue;
        Model m2 = m;
        m2.apply(op);
        seq.push_back(op);
        dfs(R, ty, depth, seq, m2);
        seq.pop_back();
    }
}

// ---------------------------------------------------------------------------------------------- single-slot instantiation
// queue<int, single_item_queue, single_item_queue>: one stored item and one waiting pop at most; a second one is refused
// with an exception and changes nothing
static void run_single_slot(seqx::Runner &R, const std::vector<int> &seq) {
    std::ostringstream d;
    d << "single-slot;ops=";
    for (size_t i = 0; i < seq.size(); i++) d << (i ? "," : "") << (seq[i] ? "pop" : "push");
    R.begin(d.str());
    int64_t base = seqx::live_allocs();
    {
        using Q1 = cocls::queue<int, cocls::primitives::single_item_queue, cocls::primitives::single_item_queue>;
        auto q = std::make_unique<Q1>();
        std::vector<std::unique_ptr<cocls::future<int>>> pops;
        std::vector<int> pop_state, pop_value;  // model: 0 waiting, 1 value
        int stored = 0, waiter = -1, next_val = 1;
        bool ok = true;
        for (size_t i = 0; i < seq.size() && ok; i++) {
            R.step();
            bool threw = false;
            if (seq[i] == 0) {
                int v = next_val++;
                bool expect_throw = waiter < 0 && stored != 0;
                try {
                    q->push(v);
                } catch (const std::runtime_error &) {
                    threw = true;
                }
                if (threw != expect_throw) {
                    R.fail("q/single-slot-guard", "step %zu: push %s although the slot is %s and %s pop waits", i, threw ? "was refused" : "was accepted", stored ? "occupied" : "free", waiter >= 0 ? "a" : "no");
                    ok = false;
                }
                if (!expect_throw) {
                    if (waiter >= 0) {
                        pop_state[(size_t)waiter] = 1;
                        pop_value[(size_t)waiter] = v;
                        waiter = -1;
                    } else
                        stored = v;
                }
            } else {
                bool expect_throw = stored == 0 && waiter >= 0;
                try {
                    pops.emplace_back(new cocls::future<int>(q->pop()));
                } catch (const std::runtime_error &) {
                    threw = true;
                }
                if (threw != expect_throw) {
                    R.fail("q/single-slot-guard", "step %zu: a second waiting pop %s", i, threw ? "was refused although nobody waits" : "was accepted although one already waits");
                    ok = false;
                    if (!threw) (void)pops.back().release();
                    if (!threw) pops.pop_back();
                }
                if (!expect_throw && ok) {
                    if (stored) {
                        pop_state.push_back(1);
                        pop_value.push_back(stored);
                        stored = 0;
                    } else {
                        waiter = (int)pop_state.size();
                        pop_state.push_back(0);
                        pop_value.push_back(0);
                    }
                }
            }
            for (size_t k = 0; k < pops.size() && ok; k++) {
                bool rdy = pops[k]->ready();
                int v = 0, st = 0;
                if (rdy) {
                    try {
                        v = pops[k]->value();
                        st = 1;
                    } catch (...) {
                        st = 3;
                    }
                }
                if (st != pop_state[k] || (st == 1 && v != pop_value[k])) {
                    R.fail(st == 3 ? "q/pop-wrong-outcome" : st == 0 ? "q/pop-not-completed" : "q/pop-wrong-item",
                           "after step %zu: pop #%zu is in state %d with value %d, the model says state %d value %d (0 waiting, 1 value, 3 cancelled)", i, k, st, v, pop_state[k], pop_value[k]);
                    ok = false;
                }
            }
            if (ok && q->size() != (stored ? 1u : 0u)) {
                R.fail("q/size", "after step %zu: size()=%zu, the model holds %d items", i, q->size(), stored ? 1 : 0);
                ok = false;
            }
            R.state(seqx::mix((uint64_t)stored != 0, (uint64_t)(waiter >= 0) + 2));
        }
        q.reset();
        for (auto &p : pops)
            if (p && !p->ready()) {
                if (ok) R.fail("q/pop-hangs-after-destroy", "a pop is still pending after the queue was destroyed");
                (void)p.release();
            }
        R.outcome(seqx::mix((uint64_t)stored, (uint64_t)waiter + 5));
    }
    if (!R.case_fail && seqx::live_allocs() != base) R.fail("q/allocation-balance", "%ld allocations not released", (long)(seqx::live_allocs() - base));
    R.end(true);
}
static void enum_single_slot(seqx::Runner &R, int depth, std::vector<int> &seq) {
    if (R.stop()) return;
    if ((int)seq.size() == depth) {
        if (R.next_case()) run_single_slot(R, seq);
        return;
    }
    for (int op = 0; op < 2; op++) {
        seq.push_back(op);
        enum_single_slot(R, depth, seq);
        seq.pop_back();
    }
}

// ---------------------------------------------------------------------------------------------- constructor form of pushed items
// push(args...) is documented as emplace: the delivered item is what T(args...) builds - whether it went through the queue's
// storage, was handed to a waiting pop directly, or sat with a blocked producer. vector<int>(3, 7) tells T(...) from T{...}.
template <typename MakeQ>
static void ctorform_case(seqx::Runner &R, const char *qname, MakeQ makeq, const std::vector<int> &seq) {
    using V = std::vector<int>;
    std::ostringstream d;
    d << "ctorform;queue=" << qname << ";ops=";
    for (size_t i = 0; i < seq.size(); i++) d << (i ? "," : "") << (seq[i] ? "pop" : "push(3,7)");
    R.begin(d.str());
    {
        auto q = makeq();
        std::vector<std::unique_ptr<cocls::future<V>>> pops;
        std::vector<std::shared_ptr<void>> push_results;  // what push() returns (a future for a bounded queue) lives until the end
        auto do_push = [&] {
            using Ret = decltype(q->push(3, 7));
            if constexpr (std::is_void_v<Ret>)
                q->push(3, 7);
            else {
                seqx::NoCount nc;
                push_results.emplace_back(std::shared_ptr<void>(new Ret(q->push(3, 7))));
            }
        };
        int pushes = 0;
        for (int op : seq) {
            if (op) {
                seqx::NoCount nc;
                pops.emplace_back(new cocls::future<V>(q->pop()));
            } else {
                do_push();
                pushes++;
            }
            R.step();
        }
        while (pushes < (int)pops.size()) {
            do_push();
            pushes++;
        }
        while ((int)pops.size() < pushes) {
            seqx::NoCount nc;
            pops.emplace_back(new cocls::future<V>(q->pop()));
        }
        for (size_t i = 0; i < pops.size() && !R.case_fail; i++) {
            if (!pops[i]->ready()) {
                R.fail("q/pop-not-completed", "pop %zu did not complete although as many items were pushed as popped", i);
                break;
            }
            V &v = pops[i]->value();
            if (v != V(3, 7))
                R.fail("q/item-not-as-constructed", "push(3, 7) into a queue of vector<int> delivered %zu element(s), first %d - vector<int>(3, 7) is three sevens", v.size(), v.empty() ? -1 : v[0]);
        }
        seqx::NoCount nc;
        pops.clear();
        push_results.clear();
    }
    R.state(seqx::hash_str(d.str()));
    R.outcome(1);
    R.end(true);
}
template <typename MakeQ>
static void ctorform_enum(seqx::Runner &R, const char *qname, MakeQ makeq, int depth, std::vector<int> &seq, const std::string &want) {
    if (!seq.empty()) {
        std::string ops;
        for (size_t i = 0; i < seq.size(); i++) ops += std::string(i ? "," : "") + (seq[i] ? "pop" : "push(3,7)");
        std::string key = std::string("ctorform;queue=") + qname + ";ops=" + ops;
        if (want.empty() ? R.next_case() : key == want) ctorform_case(R, qname, makeq, seq);
    }
    if ((int)seq.size() >= depth || R.stop()) return;
    for (int op = 0; op < 2; op++) {
        seq.push_back(op);
        ctorform_enum(R, qname, makeq, depth, seq, want);
        seq.pop_back();
    }
}

static void ctorform_all(seqx::Runner &R, const std::string &want) {
    std::vector<int> seq;
    ctorform_enum(R, "queue", [] { return std::make_unique<cocls::queue<std::vector<int>>>(); }, 4, seq, want);
}

}  // namespace

void seqx_run(seqx::Runner &R, const std::string &tier) {
    int depth = tier == "quick" ? 7 : 9;
    ctorform_all(R, "");
    {
        std::vector<int> ss;
        for (int dd = 1; dd <= (tier == "quick" ? 6 : 8); dd++) enum_single_slot(R, dd, ss);
    }
    for (int ty = 0; ty < 4; ty++) {
        Model m;
        std::vector<int> seq;
        dfs(R, ty, ty == 3 ? depth - 1 : depth, seq, m);
    }
}

void seqx_replay(seqx::Runner &R, const std::string &c) {
    if (c.rfind("ctorform;", 0) == 0) {
        ctorform_all(R, c);
        return;
    }
    if (c.rfind("single-slot;", 0) == 0) {
        std::vector<int> seq;
        std::stringstream ss(c.substr(c.find("ops=") + 4));
        std::string tok;
        while (std::getline(ss, tok, ',')) seq.push_back(tok == "pop" ? 1 : 0);
        R.next_case();
        run_single_slot(R, seq);
        return;
    }
    int ty = 0;
    for (int i = 0; i < 4; i++)
        if (c.find(std::string("type=") + ty_names[i] + ";") != std::string::npos) ty = i;
    std::vector<int> seq;
    std::stringstream ss(c.substr(c.find("ops=") + 4));
    std::string tok;
    while (std::getline(ss, tok, ','))
        for (int i = 0; i < NOPS; i++)
            if (tok == op_names[i]) seq.push_back(i);
    R.next_case();
    run_ty(R, ty, seq);
}

SEQX_MAIN()
