// C09 / C10 (threaded parts) - awaitable queue and bounded queue under producer / consumer threads.
#include "common_vrt.h"
#include <cocls/queue.h>
#include <memory>

namespace {

// scratch: per consumer c: count at 0+c, values at 10+c*8.., exceptions at 4+c ; unblock result at 40 ; seq stamps for arrival/served order
enum { S_CNT = 0, S_EXC = 4, S_VAL = 10, S_UNBLOCK = 40, S_ARRIVE = 44, S_SERVED = 48 };  // 3 consumers x 8 values fit below 40

static void got(int c, int v) {
    int64_t *s = vrt_scratch();
    int64_t n = s[S_CNT + c]++;
    if (n < 8) s[S_VAL + c * 8 + n] = v;
}

enum CK { CK_BLOCK = 0, CK_CORO };

static cocls::async<void> coro_consumer(cocls::queue<int> &q, int c, int npops) {
    for (int i = 0; i < npops; i++) {
        try {
            int v = co_await q.pop();
            got(c, v);
        } catch (const TestError &) {
            vrt_scratch()[S_EXC + c]++;
        }
    }
    vrt_scratch()[50 + c] = 1;
}
static void consumer_thread(cocls::queue<int> &q, int c, int kind, int npops) {
    static const char *labels[] = {"cons0", "cons1", "cons2"};
    vrt_label(labels[c]);
    if (kind == CK_CORO) {
        coro_consumer(q, c, npops).detach();
        return;
    }
    for (int i = 0; i < npops; i++) {
        try {
            int v = q.pop().wait();
            got(c, v);
        } catch (const TestError &) {
            vrt_scratch()[S_EXC + c]++;
        }
    }
    vrt_scratch()[50 + c] = 1;
}

static void q_scenario(int nprod, int ncons, const int *ckinds, bool unblock) {
    // note: the 'done' flags of the consumers live at scratch 50..52
    int64_t *s = vrt_scratch();
    {
        auto q = std::make_unique<cocls::queue<int>>();
        int items = nprod * 2;
        int pops_each = items / ncons;
        vstd::thread pt[3], ct[3], ut;
        for (int c = 0; c < ncons; c++) ct[c] = vstd::thread(consumer_thread, std::ref(*q), c, ckinds[c], pops_each);
        for (int p = 0; p < nprod; p++)
            pt[p] = vstd::thread([&, p] {
                static const char *labels[] = {"prod0", "prod1", "prod2"};
                vrt_label(labels[p]);
                q->push(p * 10 + 1);
                q->push(p * 10 + 2);
            });
        if (unblock)
            ut = vstd::thread([&] {
                vrt_label("unblocker");
                bool r = q->unblock_pop(std::make_exception_ptr(TestError(1)));
                vrt_scratch()[S_UNBLOCK] = r ? 1 : 2;
            });
        for (int p = 0; p < nprod; p++) pt[p].join();
        if (unblock) ut.join();
        vrt_label("main-join-consumers");
        for (int c = 0; c < ncons; c++) ct[c].join();
        for (int c = 0; c < ncons; c++) {
            vrt_label("main-wait-consumer-done");
            while (!s[50 + c]) vrt_yield();
        }
        vrt_label("main");
        // every pushed item is delivered to exactly one pop or still waits in the queue
        int seen[3][3] = {{0, 0, 0}, {0, 0, 0}, {0, 0, 0}};
        int delivered = 0, excs = 0;
        for (int c = 0; c < ncons; c++) {
            int last_of[3] = {0, 0, 0};
            excs += (int)s[S_EXC + c];
            for (int k = 0; k < s[S_CNT + c]; k++) {
                int v = (int)s[S_VAL + c * 8 + k];
                int p = v / 10, j = v % 10;
                VRT_CHECK(p >= 0 && p < nprod && j >= 1 && j <= 2, "q/invented-item", "consumer %d popped %d which nobody pushed", c, v);
                seen[p][j]++;
                delivered++;
                // each consumer sees every producer's items in that producer's order
                VRT_CHECK(j > last_of[p], "q/per-producer-order", "consumer %d received item %d of producer %d after item %d", c, j, p, last_of[p]);
                last_of[p] = j;
            }
        }
        for (int p = 0; p < nprod; p++)
            for (int j = 1; j <= 2; j++) VRT_CHECK(seen[p][j] <= 1, "q/duplicate-item", "item %d of producer %d was delivered %d times", j, p, seen[p][j]);
        int remaining = (int)q->size();
        VRT_CHECK(delivered + remaining == items, "q/item-lost", "%d items pushed, %d delivered, %d left in the queue", items, delivered, remaining);
        if (unblock) {
            VRT_CHECK(excs == (s[S_UNBLOCK] == 1 ? 1 : 0), "q/unblock-mismatch", "unblock_pop returned %s but %d pops ended with its exception", s[S_UNBLOCK] == 1 ? "true" : "false", excs);
        } else
            VRT_CHECK(excs == 0, "q/unexpected-exception", "%d pops failed", excs);
        vrt_outcome("c0=%ld c1=%ld c2=%ld exc=%d left=%d", (long)s[S_CNT], (long)s[S_CNT + 1], (long)s[S_CNT + 2], excs, remaining);
    }
}

// ---------------------------------------------------------------------------------------------- bounded queue
static void lq_scenario(int limit, int nprod, int cons_kind) {
    int64_t *s = vrt_scratch();
    {
        auto q = std::make_unique<cocls::limited_queue<int>>((std::size_t)limit);
        int items = nprod * 2;
        vstd::thread pt[2], ct;
        for (int p = 0; p < nprod; p++)
            pt[p] = vstd::thread([&, p] {
                static const char *labels[] = {"prod0", "prod1"};
                vrt_label(labels[p]);
                for (int j = 1; j <= 2; j++) {
                    cocls::future<void> f = q->push(p * 10 + j);
                    f.wait();  // back-pressure: blocks while the queue is full
                    vrt_scratch()[60 + p]++;
                }
            });
        ct = vstd::thread([&] {
            vrt_label("cons0");
            if (cons_kind == CK_CORO) {
                [](cocls::limited_queue<int> &q, int n) -> cocls::async<void> {
                    for (int i = 0; i < n; i++) {
                        int v = co_await q.pop();
                        got(0, v);
                    }
                    vrt_scratch()[50] = 1;
                }(*q, items)
                                                               .detach();
            } else {
                for (int i = 0; i < items; i++) {
                    int v = q->pop().wait();
                    got(0, v);
                    std::size_t sz = q->size();
                    if ((int)sz > limit) vrt_fail("lq/over-limit", "size()=%zu exceeds the limit %d", sz, limit);
                }
                vrt_scratch()[50] = 1;
            }
        });
        vrt_label("main-join-producers");
        for (int p = 0; p < nprod; p++) pt[p].join();
        ct.join();
        vrt_label("main-wait-consumer-done");
        while (!s[50]) vrt_yield();
        vrt_label("main");
        int last_of[2] = {0, 0}, cnt[2][3] = {{0, 0, 0}, {0, 0, 0}};
        VRT_CHECK(s[S_CNT] == items, "lq/item-lost", "%d items pushed, %ld popped", items, (long)s[S_CNT]);
        for (int k = 0; k < s[S_CNT]; k++) {
            int v = (int)s[S_VAL + k], p = v / 10, j = v % 10;
            VRT_CHECK(p >= 0 && p < nprod && j >= 1 && j <= 2, "lq/invented-item", "popped %d which nobody pushed", v);
            VRT_CHECK(++cnt[p][j] == 1, "lq/duplicate-item", "item %d delivered twice", v);
            VRT_CHECK(j > last_of[p], "lq/per-producer-order", "item %d of producer %d after item %d", j, p, last_of[p]);
            last_of[p] = j;
        }
        VRT_CHECK(q->size() == 0, "lq/size", "size()=%zu after everything was popped", q->size());
        vrt_outcome("first=%ld", (long)s[S_VAL]);
    }
}

// bounded queue: unblock_push() on its own thread against the pop that admits the blocked push
static void lq_unblock_scenario(int limit, int cons_kind) {
    int64_t *s = vrt_scratch();
    {
        auto q = std::make_unique<cocls::limited_queue<int>>((std::size_t)limit);
        int items = limit + 1;  // the last push finds the queue full unless the consumer was faster
        // scratch 60: pushes completed, 61: pushes failed by unblock_push, 62: unblock result (1 true, 2 false)
        vstd::thread pt([&] {
            vrt_label("prod0");
            for (int j = 1; j <= items; j++) {
                cocls::future<void> f = q->push(j);
                try {
                    f.wait();
                    vrt_scratch()[60]++;
                } catch (const TestError &) {
                    vrt_scratch()[61]++;
                }
            }
        });
        vstd::thread ct([&] {
            vrt_label("cons0");
            if (cons_kind == CK_CORO) {
                [](cocls::limited_queue<int> &q) -> cocls::async<void> {
                    int v = co_await q.pop();
                    got(0, v);
                    vrt_scratch()[50] = 1;
                }(*q)
                                                        .detach();
            } else {
                int v = q->pop().wait();
                got(0, v);
                vrt_scratch()[50] = 1;
            }
        });
        vstd::thread ut([&] {
            vrt_label("unblocker");
            bool r = q->unblock_push(std::make_exception_ptr(TestError(1)));
            vrt_scratch()[62] = r ? 1 : 2;
        });
        vrt_label("main-join");
        pt.join();
        ct.join();
        ut.join();
        vrt_label("main-wait-consumer-done");
        while (!s[50]) vrt_yield();
        vrt_label("main");
        VRT_CHECK(s[S_CNT] == 1 && s[S_VAL] == 1, "lq/per-producer-order", "the consumer's single pop delivered %ld (count %ld), expected item 1", (long)s[S_VAL], (long)s[S_CNT]);
        VRT_CHECK(s[60] + s[61] == items, "lq/push-not-completed", "%ld pushes completed and %ld failed out of %d", (long)s[60], (long)s[61], items);
        VRT_CHECK((s[62] == 1) == (s[61] == 1) && s[61] <= 1, "lq/unblock-mismatch", "unblock_push returned %s but %ld pushes ended with its exception", s[62] == 1 ? "true" : "false", (long)s[61]);
        // conservation: every push that completed put its item into the queue; a failed push did not
        std::size_t expect_left = (std::size_t)(s[60] - 1);
        VRT_CHECK(q->size() == expect_left, "lq/item-lost", "%ld pushes completed, 1 item popped, size()=%zu", (long)s[60], q->size());
        int prev = 1;
        for (std::size_t k = 0; k < expect_left; k++) {
            cocls::future<int> f = q->pop();
            VRT_CHECK(f.ready(), "lq/item-lost", "pop on a queue that should hold %zu more items is pending", expect_left - k);
            int v = f.value();
            VRT_CHECK(v > prev && v <= items, "lq/invented-item", "drained item %d after %d", v, prev);
            prev = v;
        }
        VRT_CHECK(q->size() == 0, "lq/size", "size()=%zu after draining", q->size());
        vrt_outcome("unblock=%ld failed=%ld", (long)s[62], (long)s[61]);
    }
}

// an observer thread asks size() / empty() while a producer and a consumer work: the answers are values the queue really had
static void q_observer_scenario(int cons_kind, bool limited) {
    int64_t *s = vrt_scratch();
    {
        auto q = std::make_unique<cocls::queue<int>>();
        auto lq = std::make_unique<cocls::limited_queue<int>>(2u);
        vstd::thread pt([&] {
            vrt_label("prod0");
            for (int j = 1; j <= 2; j++) {
                if (limited)
                    lq->push(j).wait();
                else
                    q->push(j);
            }
        });
        vstd::thread ct([&] {
            vrt_label("cons0");
            if (cons_kind == CK_CORO) {
                if (limited)
                    [](cocls::limited_queue<int> &q) -> cocls::async<void> {
                        int v = co_await q.pop();
                        got(0, v);
                        vrt_scratch()[50] = 1;
                    }(*lq)
                                                            .detach();
                else
                    [](cocls::queue<int> &q) -> cocls::async<void> {
                        int v = co_await q.pop();
                        got(0, v);
                        vrt_scratch()[50] = 1;
                    }(*q)
                                                    .detach();
            } else {
                int v = limited ? lq->pop().wait() : q->pop().wait();
                got(0, v);
                vrt_scratch()[50] = 1;
            }
        });
        vstd::thread ot([&] {
            vrt_label("observer");
            for (int k = 0; k < 2; k++) {
                std::size_t sz = limited ? lq->size() : q->size();
                bool em = limited ? lq->empty() : q->empty();
                (void)em;
                if (sz > 2) vrt_fail("q/size", "size() answered %zu: the queue never held more than two items", sz);
            }
        });
        pt.join();
        ct.join();
        ot.join();
        vrt_label("main-wait-consumer-done");
        while (!s[50]) vrt_yield();
        vrt_label("main");
        VRT_CHECK(s[S_CNT] == 1 && s[S_VAL] == 1, "q/per-producer-order", "consumer received %ld (count %ld), expected item 1", (long)s[S_VAL], (long)s[S_CNT]);
        std::size_t left = limited ? lq->size() : q->size();
        VRT_CHECK(left == 1, "q/item-lost", "one of two items popped, size()=%zu", left);
        vrt_outcome("ok");
    }
}

VRT_REGISTER(reg_queue) {
    for (int lim = 0; lim < 2; lim++)
        for (int ck = 0; ck < 2; ck++) vrt::add(std::string(lim ? "lq" : "q") + "_observer_" + (ck ? "coro" : "block"), [=] { q_observer_scenario(ck, lim != 0); });
    for (int limit = 1; limit <= 2; limit++)
        for (int ck = 0; ck < 2; ck++) vrt::add("lq_l" + std::to_string(limit) + "_unblock_" + (ck ? "coro" : "block"), [=] { lq_unblock_scenario(limit, ck); });
    for (int np = 1; np <= 2; np++)
        for (int nc = 1; nc <= 2; nc++)
            for (int k0 = 0; k0 < 2; k0++)
                for (int k1 = (nc == 2 ? k0 : 1); k1 < 2; k1++)
                    for (int ub = 0; ub < 2; ub++) {
                        if (np * 2 % nc) continue;
                        std::string name = "q_p" + std::to_string(np) + "_c" + std::to_string(nc) + "_" + (k0 ? "coro" : "block") + (nc == 2 ? (k1 ? "-coro" : "-block") : "") + (ub ? "_unblock" : "");
                        vrt::add(name, [=] {
                            int ck[2] = {k0, k1};
                            q_scenario(np, nc, ck, ub != 0);
                        });
                    }
    // up to three producers and three consumers (thorough tier, small bound)
    for (int nc = 1; nc <= 3; nc++)
        for (int mix = 0; mix < 2; mix++) {
            if (6 % nc) continue;
            std::string name = "q_p3_c" + std::to_string(nc) + (mix ? "_mixed" : "_block");
            vrt::add(name, [=] {
                int ck[3] = {CK_BLOCK, mix ? CK_CORO : CK_BLOCK, CK_BLOCK};
                q_scenario(3, nc, ck, false);
            });
        }
    for (int limit = 1; limit <= 2; limit++)
        for (int np = 1; np <= 2; np++)
            for (int ck = 0; ck < 2; ck++) {
                std::string name = "lq_l" + std::to_string(limit) + "_p" + std::to_string(np) + "_" + (ck ? "coro" : "block");
                vrt::add(name, [=] { lq_scenario(limit, np, ck); });
            }
}

}  // namespace

int main(int argc, char **argv) { return vrt_main(argc, argv); }
