// C18 (sequential cells) - callback adapters fire exactly once with the right outcome and free their helper once.
// adapter x outcome (value, exception, drop) x timing (resolved before registration, resolved later on the same thread)
// x converter behaviour (returns, throws) x allocator choice.
#include <cocls/future.h>
#include <cocls/async.h>
#include <cocls/callback_awaiter.h>
#include <cocls/coro_storage.h>
#include <cocls/future_conv.h>

#include <memory>
#include <sstream>

#include "../engine/seqx/seqx.h"
#include "common_seq.h"

namespace {

struct TestError {};  // deliberately not derived from std::exception: adapters must pass on whatever was thrown
struct ConvError : std::exception {};

enum Adapter { A_CB_AWAIT = 0, A_CB_AWAIT_ALLOC, A_MAKE_PROMISE, A_MAKE_PROMISE_STORAGE, A_DISCARD, A_CONV_MEMBER, A_CONV_MEMBER_VOID, A_CONV_MEMBER_SP, A_CONV_MEMBER_SP_VOID, A_CONV_STATIC, A_CONV_STATIC_CTX, A_CALL_FN, A_CB_AWAIT_FACTORY, A_CB_AWAIT_FACTORY_CORO, A_CB_AWAIT_ALLOC_FACTORY_CORO, NADAPT };
static const char *ad_names[] = {"callback_await", "callback_await_alloc", "make_promise", "make_promise+storage", "discard", "future_conv<member>", "future_conv<member,void>",
                                 "future_conv<member,suspend_point>", "future_conv<member,suspend_point,void>", "future_conv<static>", "future_conv<static,ctx>", "call_fn_future_awaiter",
                                 "callback_await(factory)", "callback_await(factory) from a coroutine", "callback_await_alloc(factory) from a coroutine"};
// overwritten: the pending promise is given up by move-assigning another promise over it (observed like a drop)
enum Outcome { O_VALUE = 0, O_EXC, O_DROP, O_OVERWRITTEN, NOUT };
static const char *out_names[] = {"value", "exception", "drop", "overwritten"};
enum Timing { T_BEFORE = 0, T_LATER, NTIM };
static const char *tim_names[] = {"resolved-before-registration", "resolved-later"};

struct Probe {
    int calls = 0;
    int kind = 0;  // 1 value 2 TestError 3 await_canceled 4 ConvError 9 other
    int val = 0;
};

// source futures --------------------------------------------------------------------------------
template <typename T>
struct Src {
    cocls::promise<T> saved;
    cocls::future<T> make(int outcome, int timing) {
        if (timing == T_BEFORE) {
            if (outcome == O_VALUE) {
                if constexpr (std::is_void_v<T>)
                    return cocls::future<T>::set_value();
                else
                    return cocls::future<T>::set_value(5);
            }
            if (outcome == O_EXC) return cocls::future<T>::set_exception(std::make_exception_ptr(TestError()));
            return cocls::future<T>::set_not_value();
        }
        return cocls::future<T>([this](cocls::promise<T> p) { saved = std::move(p); });
    }
    void resolve(int outcome) {
        if (!saved) return;
        if (outcome == O_VALUE) {
            if constexpr (std::is_void_v<T>)
                saved();
            else
                saved(5);
        } else if (outcome == O_EXC)
            saved(std::make_exception_ptr(TestError()));
        else if (outcome == O_OVERWRITTEN)
            saved = cocls::promise<T>();
        else
            saved(cocls::drop);
    }
};

template <typename T>
static int kind_through_const(const cocls::future<T> &f) {
    try {
        f.value();
        return 1;
    } catch (const TestError &) {
        return 2;
    } catch (const cocls::await_canceled_exception &) {
        return 3;
    } catch (const ConvError &) {
        return 4;
    } catch (...) {
        return 9;
    }
}
template <typename T>
static void classify_future(cocls::future<T> &f, Probe &p) {
    p.calls++;
    int const_kind = kind_through_const(f);  // a completion handler may take the future by const reference
    try {
        if constexpr (std::is_void_v<T>) {
            f.value();
            p.val = 0;
        } else
            p.val = f.value();
        p.kind = 1;
    } catch (const TestError &) {
        p.kind = 2;
    } catch (const cocls::await_canceled_exception &) {
        p.kind = 3;
    } catch (const ConvError &) {
        p.kind = 4;
    } catch (...) {
        p.kind = 9;
    }
    if (const_kind != p.kind) p.kind = 90 + const_kind;  // the two views of one resolved future disagree: reported as a wrong delivery
}

// converters -----------------------------------------------------------------------------------
struct Conv {
    bool throws = false;
    bool declines = false;  // promise-flavoured converters only: return without resolving or keeping the outer promise
    int calls = 0;
    int conv(int &v) {
        calls++;
        if (throws) throw ConvError();
        return v * 10;
    }
    int conv_void() {
        calls++;
        if (throws) throw ConvError();
        return 50;
    }
    cocls::suspend_point<void> conv_sp(int &v, cocls::promise<int> &p) {
        calls++;
        if (throws) throw ConvError();
        if (declines) return {};
        return p(v * 10);
    }
    cocls::suspend_point<void> conv_sp_void(cocls::promise<int> &p) {
        calls++;
        if (throws) throw ConvError();
        if (declines) return {};
        return p(50);
    }
    static int sconv(int &v) { return v * 10; }
    static int sconv_ctx(int &v, Conv *c) {
        c->calls++;
        if (c->throws) throw ConvError();
        return v * 10;
    }
};
// a converter that re-arms itself for a second asynchronous step (the pattern of the repository's Conv2 test class)
struct Rearm {
    Src<int> second;
    int second_out = 0, second_tim = 0, calls = 0;
    bool have_tmp = false;
    int tmp = 0;
    Rearm() : convertor(this) {}
    cocls::suspend_point<void> conv(int &v, cocls::promise<int> &p) {
        calls++;
        if (have_tmp) {
            have_tmp = false;
            return p(tmp + v);
        }
        have_tmp = true;
        tmp = v;
        convertor(std::move(p)) << [&] { return second.make(second_out, second_tim); };
        return {};
    }
    cocls::future_conv<&Rearm::conv> convertor;
};
struct CallFnOwner {
    Probe probe;
    cocls::suspend_point<void> done(cocls::future<int> &f) noexcept {
        classify_future(f, probe);
        return {};
    }
};

// callback_await<future<int>>(fn, factory): the awaitable is constructed inside the helper coroutine from the arguments
// given at registration. The factory is a stateful rvalue; registered from inside a running coroutine the helper only
// starts after the registering coroutine (and its temporaries) are gone, so the helper must own a copy.
static int g_factory_dead_calls;
struct Factory {
    Src<int> *src;
    int out, tim;
    int alive = 12345;
    Factory(Src<int> *s, int o, int t) : src(s), out(o), tim(t) {}
    Factory(const Factory &o) : src(o.src), out(o.out), tim(o.tim), alive(o.alive) {}
    ~Factory() {
        volatile int *p = &alive;
        *p = 0;
    }
    cocls::future<int> operator()() {
        if (alive != 12345) {
            g_factory_dead_calls++;
            return cocls::future<int>::set_value(-777);
        }
        return src->make(out, tim);
    }
};
template <typename Fn>
static cocls::async<void> register_from_coroutine(Fn fn, Src<int> *src, int out, int tim, cocls::reusable_storage *storage) {
    if (storage)
        cocls::callback_await_alloc<cocls::reusable_storage, cocls::future<int>>(*storage, std::move(fn), Factory(src, out, tim));
    else
        cocls::callback_await<cocls::future<int>>(std::move(fn), Factory(src, out, tim));  // rvalue: the helper owns the callback
    co_return;
}

struct CountingStorage : cocls::reusable_storage {
    int allocs = 0;
    void *alloc(std::size_t sz) {
        allocs++;
        return cocls::reusable_storage::alloc(sz);
    }
};

static std::string describe(int ad, int out, int tim, int cthrow) {
    std::ostringstream o;
    o << "adapter=" << ad << ":" << ad_names[ad] << ";outcome=" << out_names[out] << ";timing=" << tim_names[tim] << ";converter_throws=" << cthrow;
    return o.str();
}

static void run_rearm(seqx::Runner &R, int tim1, int out2, int tim2) {
    std::ostringstream d;
    d << "rearm;first_timing=" << tim1 << ";second_outcome=" << out2 << ";second_timing=" << tim2;
    R.begin(d.str());
    int64_t base = seqx::live_allocs();
    {
        Rearm r;
        r.second_out = out2;
        r.second_tim = tim2;
        Src<int> first;
        Probe outer;
        {
            std::unique_ptr<cocls::future<int>> o(new cocls::future<int>(r.convertor << [&] { return first.make(O_VALUE, tim1); }));
            R.step();
            if (tim1 == T_LATER) first.resolve(O_VALUE);
            if (tim2 == T_LATER) {
                if (o->ready()) R.fail("cb/fired-before-resolution", "two-step converter completed before its second source was resolved");
                r.second.resolve(out2);
            }
            R.step();
            int ek = out2 == O_VALUE ? 1 : out2 == O_EXC ? 2 : 3;
            if (!o->ready()) {
                R.fail("cb/never-fired", "two-step converter: outer future still pending after both sources were resolved");
                (void)o.release();  // a pending future cannot be destroyed
            } else {
                classify_future(*o, outer);
                if (outer.kind != ek || (ek == 1 && outer.val != 10))
                    R.fail("cb/converter-wrong-delivery", "two-step converter: outer future holds kind=%d val=%d, expected kind=%d val=10", outer.kind, outer.val, ek);
                int want_calls = 2;  // the second step's result (value, exception or broken promise) is presented to the converter
                (void)want_calls;
            }
        }
        R.outcome(seqx::mix((uint64_t)outer.kind, 99));
        R.state(seqx::hash_str(d.str()));
    }
    if (!R.case_fail && seqx::live_allocs() != base) R.fail("cb/helper-not-freed-once", "%ld allocations not released", (long)(seqx::live_allocs() - base));
    R.end(true);
}

static void run_cell(seqx::Runner &R, int ad, int out, int tim, int cthrow) {
    R.begin(describe(ad, out, tim, cthrow));
    int64_t base = seqx::live_allocs();
    {
        Probe probe;       // what the registered completion saw
        Probe outer;       // what the outer future of a converter holds
        bool has_outer = false;
        int expect_kind = out == O_VALUE ? 1 : out == O_EXC ? 2 : 3;
        int expect_val = out == O_VALUE ? 5 : 0;
        cocls::reusable_storage storage;
        Src<int> src;
        Src<void> vsrc;
        Conv conv;
        conv.throws = cthrow == 1;
        conv.declines = cthrow == 2;
        switch (ad) {
            case A_CB_AWAIT:
            case A_CB_AWAIT_ALLOC: {
                cocls::future<int> fut = src.make(out, tim);
                auto fn = [&probe](cocls::await_result<int> r) {
                    probe.calls++;
                    try {
                        probe.val = *r;
                        probe.kind = 1;
                    } catch (const TestError &) {
                        probe.kind = 2;
                    } catch (const cocls::await_canceled_exception &) {
                        probe.kind = 3;
                    } catch (...) {
                        probe.kind = 9;
                    }
                };
                if (ad == A_CB_AWAIT)
                    cocls::callback_await<cocls::future<int> &>(fn, fut);
                else {
                    // the callback is handed over as a named object that is gone before the operation completes: the helper takes
                    // its callback by value and must own it
                    auto short_lived = fn;
                    cocls::callback_await_alloc<cocls::reusable_storage, cocls::future<int> &>(storage, short_lived, fut);
                }
                R.step();
                if (tim == T_LATER) {
                    if (probe.calls) R.fail("cb/fired-before-resolution", "callback ran before the awaited future was resolved");
                    src.resolve(out);
                    R.step();
                }
                break;
            }
            case A_CB_AWAIT_FACTORY:
            case A_CB_AWAIT_FACTORY_CORO:
            case A_CB_AWAIT_ALLOC_FACTORY_CORO: {
                g_factory_dead_calls = 0;
                auto fn = [&probe](cocls::await_result<int> r) {
                    probe.calls++;
                    try {
                        probe.val = *r;
                        probe.kind = 1;
                    } catch (const TestError &) {
                        probe.kind = 2;
                    } catch (const cocls::await_canceled_exception &) {
                        probe.kind = 3;
                    } catch (...) {
                        probe.kind = 9;
                    }
                };
                if (ad == A_CB_AWAIT_FACTORY)
                    cocls::callback_await<cocls::future<int>>(fn, Factory(&src, out, tim));
                else
                    register_from_coroutine(fn, &src, out, tim, ad == A_CB_AWAIT_ALLOC_FACTORY_CORO ? &storage : nullptr).detach();
                R.step();
                if (tim == T_LATER) {
                    if (probe.calls) R.fail("cb/fired-before-resolution", "callback ran before the awaited future was resolved");
                    src.resolve(out);
                    R.step();
                }
                if (g_factory_dead_calls) R.fail("cb/argument-used-after-destruction", "the awaitable was constructed from a registration argument that no longer exists");
                break;
            }
            case A_MAKE_PROMISE:
            case A_MAKE_PROMISE_STORAGE: {
                auto fn = [&probe](cocls::future<int> &f) { classify_future(f, probe); };
                cocls::promise<int> p = ad == A_MAKE_PROMISE ? cocls::make_promise<int>(fn) : cocls::make_promise<int>(fn, storage);
                R.step();
                if (probe.calls) R.fail("cb/fired-before-resolution", "make_promise callback ran before the promise was resolved");
                if (out == O_VALUE)
                    p(5);
                else if (out == O_EXC)
                    p(std::make_exception_ptr(TestError()));
                else if (out == O_OVERWRITTEN)
                    p = cocls::promise<int>();
                else if (tim == T_BEFORE)
                    p(cocls::drop);
                else {
                    cocls::promise<int> q(std::move(p));  // dropped by destruction
                }
                R.step();
                break;
            }
            case A_DISCARD: {
                // no completion to observe: the helper must free itself exactly once (allocation balance below)
                cocls::discard([&] { return src.make(out, tim); });
                R.step();
                if (tim == T_LATER) src.resolve(out);
                probe.calls = 1;
                probe.kind = expect_kind;
                probe.val = expect_val;
                break;
            }
            case A_CONV_MEMBER: {
                cocls::future_conv<&Conv::conv> c(&conv);
                cocls::future<int> o = c << [&] { return src.make(out, tim); };
                R.step();
                if (tim == T_LATER) {
                    if (o.ready()) R.fail("cb/fired-before-resolution", "converted future ready before the source was resolved");
                    src.resolve(out);
                }
                has_outer = true;
                classify_future(o, outer);
                break;
            }
            case A_CONV_MEMBER_VOID: {
                cocls::future_conv<&Conv::conv_void> c(&conv);
                cocls::future<int> o = c << [&] { return vsrc.make(out, tim); };
                R.step();
                if (tim == T_LATER) vsrc.resolve(out);
                has_outer = true;
                classify_future(o, outer);
                if (out == O_VALUE) expect_val = 5;  // converted below to 50
                break;
            }
            case A_CONV_MEMBER_SP: {
                cocls::future_conv<&Conv::conv_sp> c(&conv);
                cocls::future<int> o = c << [&] { return src.make(out, tim); };
                R.step();
                if (tim == T_LATER) src.resolve(out);
                has_outer = true;
                classify_future(o, outer);
                break;
            }
            case A_CONV_MEMBER_SP_VOID: {
                cocls::future_conv<&Conv::conv_sp_void> c(&conv);
                cocls::future<int> o = c << [&] { return vsrc.make(out, tim); };
                R.step();
                if (tim == T_LATER) vsrc.resolve(out);
                has_outer = true;
                classify_future(o, outer);
                break;
            }
            case A_CONV_STATIC: {
                cocls::future_conv<&Conv::sconv> c;
                cocls::future<int> o = c << [&] { return src.make(out, tim); };
                R.step();
                if (tim == T_LATER) src.resolve(out);
                has_outer = true;
                classify_future(o, outer);
                break;
            }
            case A_CONV_STATIC_CTX: {
                cocls::future_conv<&Conv::sconv_ctx> c(&conv);
                cocls::future<int> o = c << [&] { return src.make(out, tim); };
                R.step();
                if (tim == T_LATER) src.resolve(out);
                has_outer = true;
                classify_future(o, outer);
                break;
            }
            case A_CALL_FN: {
                CallFnOwner owner;
                cocls::call_fn_future_awaiter<&CallFnOwner::done> aw(owner);
                aw << [&] { return src.make(out, tim); };
                R.step();
                if (tim == T_LATER) {
                    if (owner.probe.calls) R.fail("cb/fired-before-resolution", "member callback ran before resolution");
                    src.resolve(out);
                }
                probe = owner.probe;
                break;
            }
        }
        if (has_outer) {
            // expected content of the outer future
            bool void_src = ad == A_CONV_MEMBER_VOID || ad == A_CONV_MEMBER_SP_VOID;
            int ek, ev = 0;
            bool conv_runs;
            // the source's exception / broken promise reaches the outer future; the converter body runs only for a value
            (void)void_src;
            conv_runs = out == O_VALUE;
            if (conv_runs && cthrow == 1 && ad != A_CONV_STATIC)
                ek = 4;
            else if (conv_runs && cthrow == 2)
                ek = 3;  // nobody answered: the outer promise is dropped, the outer future reports a broken promise
            else if (out == O_VALUE) {
                ek = 1;
                ev = 50;
            } else
                ek = out == O_EXC ? 2 : 3;
            if (outer.kind != ek || (ek == 1 && outer.val != ev))
                R.fail("cb/converter-wrong-delivery", "outer future holds kind=%d val=%d, expected kind=%d val=%d (1 value,2 source exception,3 await_canceled,4 converter exception)", outer.kind,
                       outer.val, ek, ev);
            if (ad != A_CONV_STATIC && conv.calls != (conv_runs ? 1 : 0)) R.fail("cb/converter-call-count", "converter ran %d times, expected %d", conv.calls, conv_runs ? 1 : 0);
        } else {
            if (probe.calls != 1) R.fail(probe.calls == 0 ? "cb/never-fired" : "cb/fired-more-than-once", "completion ran %d times", probe.calls);
            if (probe.calls == 1 && (probe.kind != expect_kind || (expect_kind == 1 && probe.val != expect_val)))
                R.fail("cb/wrong-outcome", "completion saw kind=%d val=%d, expected kind=%d val=%d", probe.kind, probe.val, expect_kind, expect_val);
        }
        R.outcome(seqx::mix((uint64_t)(has_outer ? outer.kind : probe.kind), (uint64_t)ad));
        R.state(seqx::hash_str(describe(ad, out, tim, cthrow)));
    }
    if (!R.case_fail && seqx::live_allocs() != base) R.fail("cb/helper-not-freed-once", "%ld allocations not released (helper object leaked)", (long)(seqx::live_allocs() - base));
    R.end(true);
}

}  // namespace

void seqx_run(seqx::Runner &R, const std::string &) {
    seq_warmup();
    for (int ad = 0; ad < NADAPT; ad++)
        for (int out = 0; out < NOUT; out++)
            for (int tim = 0; tim < NTIM; tim++)
                for (int ct = 0; ct < 3; ct++) {
                    bool is_conv = ad >= A_CONV_MEMBER && ad <= A_CONV_STATIC_CTX;
                    if (ct && (!is_conv || ad == A_CONV_STATIC)) continue;
                    if (ct == 2 && ad != A_CONV_MEMBER_SP && ad != A_CONV_MEMBER_SP_VOID) continue;
                    if (R.next_case()) run_cell(R, ad, out, tim, ct);
                }
    for (int t1 = 0; t1 < NTIM; t1++)
        for (int o2 = 0; o2 < NOUT; o2++)
            for (int t2 = 0; t2 < NTIM; t2++)
                if (R.next_case()) run_rearm(R, t1, o2, t2);
}

void seqx_replay(seqx::Runner &R, const std::string &c) {
    seq_warmup();
    if (c.rfind("rearm;", 0) == 0) {
        int t1 = 0, o2 = 0, t2 = 0;
        sscanf(c.c_str(), "rearm;first_timing=%d;second_outcome=%d;second_timing=%d", &t1, &o2, &t2);
        R.next_case();
        run_rearm(R, t1, o2, t2);
        return;
    }
    int ad = atoi(c.c_str() + c.find("adapter=") + 8);
    int out = 0, tim = 0;
    for (int i = 0; i < NOUT; i++)
        if (c.find(std::string("outcome=") + out_names[i] + ";") != std::string::npos) out = i;
    for (int i = 0; i < NTIM; i++)
        if (c.find(std::string("timing=") + tim_names[i] + ";") != std::string::npos) tim = i;
    int ct = atoi(c.c_str() + c.find("converter_throws=") + 17);
    R.next_case();
    run_cell(R, ad, out, tim, ct);
}

SEQX_MAIN()
