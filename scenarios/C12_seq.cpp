// C12 (sequential parts) - scheduler.
//  part M: manual mode - every history over schedule / cancel / remove / get_expired against a multiset model
//  part S: single-thread start(awaitable) mode under virtual time with scripted sleepers, cancels and interval()
#include <cocls/future.h>
#include <cocls/async.h>
#include <cocls/scheduler.h>

#include <memory>
#include <sstream>

#include "../engine/seqx/seqx.h"

namespace {

using tp_t = std::chrono::system_clock::time_point;
static tp_t T0() { return tp_t(std::chrono::duration_cast<tp_t::duration>(std::chrono::nanoseconds(1000000000000000LL))); }
static tp_t at(int ms) { return T0() + std::chrono::milliseconds(ms); }
static long ms_of(tp_t t) { return (long)std::chrono::duration_cast<std::chrono::milliseconds>(t - T0()).count(); }

struct TestError : std::exception {};

// ------------------------------------------------------------------------------------------------ part M
// op encoding
struct MOp {
    const char *name;
    int kind;  // 0 schedule 1 cancel 2 cancel-with-exception 3 remove 4 get_expired
    int tp;    // ms (schedule / now)
    int id;    // 0 X, 1 Y, 2 null
};
static const MOp MOPS[] = {
    {"sched(1,X)", 0, 1, 0}, {"sched(2,X)", 0, 2, 0}, {"sched(3,X)", 0, 3, 0}, {"sched(1,Y)", 0, 1, 1}, {"sched(2,Y)", 0, 2, 1},
    {"sched(3,Y)", 0, 3, 1}, {"sched(2,null)", 0, 2, 2}, {"sched(past,X)", 0, -5, 0}, {"cancel(X)", 1, 0, 0}, {"cancel(Y)", 1, 0, 1},
    {"cancelE(X)", 2, 0, 0}, {"remove(Y)", 3, 0, 1}, {"expired(1)", 4, 1, 0}, {"expired(2)", 4, 2, 0}, {"expired(3)", 4, 3, 0},
};
static const int NMOPS = sizeof MOPS / sizeof MOPS[0];
static char id_tags[2];

struct Sleep {
    int tp, id;
    int state;  // 0 pending 1 expired(value) 2 cancelled(await_canceled) 3 cancelled(TestError)
};

static int fut_state(cocls::future<void> &f) {
    if (!f.ready()) return 0;
    try {
        f.value();
        return 1;
    } catch (const cocls::await_canceled_exception &) {
        return 2;
    } catch (const TestError &) {
        return 3;
    } catch (...) {
        return 9;
    }
}

static std::string m_describe(const std::vector<int> &seq) {
    std::ostringstream o;
    o << "manual;ops=";
    for (size_t i = 0; i < seq.size(); i++) o << (i ? " " : "") << MOPS[seq[i]].name;
    return o.str();
}

static void run_manual(seqx::Runner &R, const std::vector<int> &seq) {
    R.begin(m_describe(seq));
    int64_t base = seqx::live_allocs();
    {
        auto sch = std::make_unique<cocls::scheduler>();
        std::vector<Sleep> model;
        std::vector<std::unique_ptr<cocls::future<void>>> futs;
        bool ok = true;
        // compares all futures with the model; 'open' lists sleeps of which exactly one must have changed to 'newstate'
        auto settle = [&](size_t step, const std::vector<int> &cands, int newstate, bool must_change, const char *what) {
            int changed = -1, nchanged = 0;
            for (size_t i = 0; i < futs.size(); i++) {
                int st = fut_state(*futs[i]);
                if (st != model[i].state) {
                    bool is_cand = false;
                    for (int c : cands) is_cand |= c == (int)i;
                    if (!is_cand || st != newstate) {
                        R.fail("sched/wrong-sleep-completed", "step %zu (%s): sleep #%zu (tp=%d,id=%d) went from state %d to %d; allowed: one of the %zu candidates to state %d",
                               step, what, i, model[i].tp, model[i].id, model[i].state, st, cands.size(), newstate);
                        return false;
                    }
                    changed = (int)i;
                    nchanged++;
                }
            }
            if (nchanged > 1) {
                R.fail("sched/more-than-one-completed", "step %zu (%s): %d sleeps completed, exactly one is allowed", step, what, nchanged);
                return false;
            }
            if (must_change && nchanged != 1) {
                R.fail("sched/none-completed", "step %zu (%s): no pending sleep completed although the call reported success", step, what);
                return false;
            }
            if (changed >= 0) model[changed].state = newstate;
            return true;
        };
        for (size_t i = 0; i < seq.size() && ok; i++) {
            const MOp &op = MOPS[seq[i]];
            const void *id = op.id == 2 ? nullptr : &id_tags[op.id];
            R.step();
            switch (op.kind) {
                case 0: {
                    futs.emplace_back(new cocls::future<void>(sch->sleep_until(at(op.tp), id)));
                    model.push_back({op.tp, op.id, 0});
                    ok = settle(i, {}, 0, false, op.name);
                    break;
                }
                case 1:
                case 2:
                case 3: {
                    std::vector<int> cands;
                    for (size_t k = 0; k < model.size(); k++)
                        if (model[k].state == 0 && model[k].id == op.id) cands.push_back((int)k);
                    bool r;
                    int newstate = 2;
                    if (op.kind == 1)
                        r = sch->cancel(id);
                    else if (op.kind == 2) {
                        r = sch->cancel(id, std::make_exception_ptr(TestError()));
                        newstate = 3;
                    } else {
                        cocls::scheduler::promise p = sch->remove(id);
                        r = static_cast<bool>(p);
                        // dropping the removed promise resolves the sleep to no-value (await_canceled_exception)
                    }
                    if (r != !cands.empty()) {
                        R.fail(r ? "sched/cancel-true-without-target" : "sched/cancel-false-with-pending-target",
                               "step %zu: %s reported %d but %zu pending sleeps carry that id", i, op.name, (int)r, cands.size());
                        ok = false;
                        break;
                    }
                    ok = settle(i, cands, newstate, r, op.name);
                    break;
                }
                case 4: {
                    int mintp = INT32_MAX;
                    for (auto &s : model)
                        if (s.state == 0 && s.tp < mintp) mintp = s.tp;
                    cocls::scheduler::expired e = sch->get_expired(at(op.tp));
                    if (std::holds_alternative<cocls::scheduler::promise>(e)) {
                        if (mintp > op.tp) {
                            R.fail("sched/expired-early", "step %zu: %s handed out a sleep although the earliest pending deadline is %d", i, op.name, mintp);
                            ok = false;
                            std::get<cocls::scheduler::promise>(e)();
                            break;
                        }
                        std::get<cocls::scheduler::promise>(e)();
                        std::vector<int> cands;
                        for (size_t k = 0; k < model.size(); k++)
                            if (model[k].state == 0 && model[k].tp == mintp) cands.push_back((int)k);
                        ok = settle(i, cands, 1, true, op.name);  // must be one with the minimal deadline: deadline order
                    } else {
                        tp_t t = std::get<tp_t>(e);
                        if (mintp <= op.tp) {
                            R.fail("sched/expired-not-reported", "step %zu: %s returned a time point although a sleep with deadline %d is due", i, op.name, mintp);
                            ok = false;
                            break;
                        }
                        tp_t expect = mintp == INT32_MAX ? tp_t::max() : at(mintp);
                        if (t != expect) {
                            R.fail("sched/next-deadline", "step %zu: %s returned next deadline %ld ms, expected %d", i, op.name, ms_of(t), mintp == INT32_MAX ? -1 : mintp);
                            ok = false;
                            break;
                        }
                        ok = settle(i, {}, 0, false, op.name);
                    }
                    break;
                }
            }
            uint64_t key = 17;
            std::vector<uint64_t> ks;
            for (auto &s : model) ks.push_back((uint64_t)(s.tp + 10) * 64 + s.id * 8 + s.state);
            std::sort(ks.begin(), ks.end());
            for (auto k : ks) key = seqx::mix(key, k);
            R.state(key);
        }
        sch.reset();
        for (size_t k = 0; k < futs.size(); k++)
            if (!futs[k]->ready()) {
                if (ok) R.fail("sched/sleep-hangs-after-destroy", "sleep #%zu still pending after the scheduler was destroyed", k);
                (void)futs[k].release();
            } else if (ok && model[k].state == 0 && fut_state(*futs[k]) != 2)
                R.fail("sched/destroy-not-cancel", "sleep #%zu pending at destruction completed with state %d instead of await_canceled", k, fut_state(*futs[k]));
        if (seqx_locked_count() != 0) R.fail("sched/mutex-left-locked", "a std::mutex is still locked at the end of the history");
    }
    if (!R.case_fail && seqx::live_allocs() != base) R.fail("sched/allocation-balance", "%ld allocations not released", (long)(seqx::live_allocs() - base));
    R.end(true);
}

static void m_dfs(seqx::Runner &R, int depth, std::vector<int> &seq, int nsched, const int *ops, int nops) {
    if (R.stop()) return;
    if ((int)seq.size() == depth) {
        if (R.next_case()) run_manual(R, seq);
        return;
    }
    for (int k = 0; k < nops; k++) {
        int op = ops[k];
        if (MOPS[op].kind == 0 && nsched >= 4) continue;
        if (seq.empty() && MOPS[op].kind != 0) continue;  // histories start with a schedule (others are suffixes of shorter ones)
        seq.push_back(op);
        m_dfs(R, depth, seq, nsched + (MOPS[op].kind == 0), ops, nops);
        seq.pop_back();
    }
}

// ------------------------------------------------------------------------------------------------ part S
// script: up to 3 sleepers with durations; optional canceller (sleeps d then cancels sleeper k); optional interval consumer
struct SScript {
    int n;
    int dur[3];
    int cancel_who;   // -1 none, else sleeper index
    int cancel_at;    // ms
    int interval;     // 0 none, else period ms, consumed 2 ticks then stop token
    int twice[3];     // sleeper sleeps a second time for the same duration
    int task_throws;  // the task given to start() ends with an exception (start() must still return, rethrowing it)
};
struct SLog {
    struct Ev {
        int who, kind;  // kind 1 woke, 2 cancelled
        long at, want;
    };
    std::vector<Ev> evs;
    int done = 0;
    int ticks = 0;
};
static char s_ids[3];
// script durations are multiples of 700 us - deliberately not a whole number of milliseconds - and times are compared in us
constexpr long UNIT_US = 700;
static long us_of(tp_t t) { return (long)std::chrono::duration_cast<std::chrono::microseconds>(t - T0()).count(); }
static std::chrono::microseconds units(long n) { return std::chrono::microseconds(n * UNIT_US); }

static cocls::async<void> sleeper(cocls::scheduler &sch, int who, int dur, int twice, SLog &log) {
    for (int r = 0; r <= twice; r++) {
        long want = us_of(vstd::chrono::system_clock::now()) + dur * UNIT_US;
        try {
            co_await sch.sleep_for(units(dur), &s_ids[who]);
            log.evs.push_back({who, 1, us_of(vstd::chrono::system_clock::now()), want});
        } catch (const cocls::await_canceled_exception &) {
            log.evs.push_back({who, 2, us_of(vstd::chrono::system_clock::now()), want});
            break;
        }
    }
    log.done++;
}
static cocls::async<void> canceller(cocls::scheduler &sch, int who, int when, SLog &log, int *result) {
    co_await sch.sleep_for(units(when));
    *result = sch.cancel(&s_ids[who]) ? 1 : 0;
    log.done++;
}
static cocls::async<void> ticker(cocls::scheduler &sch, int period, SLog &log) {
    vstd::stop_source src;
    auto gen = sch.interval(units(period), src.get_token());
    long start = us_of(vstd::chrono::system_clock::now());
    for (int i = 0; i < 2; i++) {
        bool more = co_await gen.next();
        if (!more) break;
        log.ticks++;
        long nowus = us_of(vstd::chrono::system_clock::now());
        log.evs.push_back({10, 1, nowus, start + period * UNIT_US * (i + 1)});
    }
    // stop while the generator is parked at co_yield: the next call must end the sequence without sleeping
    src.request_stop();
    bool more = co_await gen.next();
    if (more) log.evs.push_back({10, 3, 0, 0});
    log.done++;
}
static cocls::async<void> ticker_stop_while_sleeping(cocls::scheduler &sch, int period, SLog &log) {
    // request_stop() while interval() is suspended in its sleep: cancellation through the stop token
    vstd::stop_source src;
    auto gen = sch.interval(units(period), src.get_token());
    cocls::future<std::size_t> f = gen();  // generator now sleeps
    src.request_stop();                    // must cancel that sleep, not hang
    bool hv = co_await f.has_value();
    if (hv) log.evs.push_back({10, 3, 0, 0});
    log.done++;
}
struct TaskFailed : std::exception {};
static cocls::async<void> s_driver(cocls::scheduler &sch, const SScript &sc, SLog &log, int *cres) {
    std::vector<cocls::future<void>*> fs;
    cocls::future<void> f0, f1, f2, fc, ft;
    cocls::future<void> *arr[3] = {&f0, &f1, &f2};
    for (int i = 0; i < sc.n; i++) *arr[i] << [&] { return sleeper(sch, i, sc.dur[i], sc.twice[i], log).start(); };
    if (sc.cancel_who >= 0) fc << [&] { return canceller(sch, sc.cancel_who, sc.cancel_at, log, cres).start(); };
    if (sc.interval > 0) ft << [&] { return ticker(sch, sc.interval, log).start(); };
    if (sc.interval < 0) ft << [&] { return ticker_stop_while_sleeping(sch, -sc.interval, log).start(); };
    for (int i = 0; i < sc.n; i++) co_await *arr[i];
    if (sc.cancel_who >= 0) co_await fc;
    if (sc.interval != 0) co_await ft;
    if (sc.task_throws) throw TaskFailed();
}

static std::string s_describe(const SScript &s) {
    std::ostringstream o;
    o << "single;n=" << s.n << ";dur=" << s.dur[0] << "," << s.dur[1] << "," << s.dur[2] << ";twice=" << s.twice[0] << "," << s.twice[1] << "," << s.twice[2]
      << ";cancel=" << s.cancel_who << "@" << s.cancel_at << ";interval=" << s.interval << ";task_throws=" << s.task_throws;
    return o.str();
}

static void run_single(seqx::Runner &R, const SScript &sc) {
    R.begin(s_describe(sc));
    {
        SLog log;
        int cres = -1;
        {
            cocls::scheduler sch;
            cocls::future<void> task = s_driver(sch, sc, log, &cres).start();
            bool thrown = false;
            try {
                sch.start(task);
            } catch (const TaskFailed &) {
                thrown = true;
            }
            if (thrown != (sc.task_throws != 0)) R.fail("sched/single/start-result", "start(task) %s although the task %s", thrown ? "threw" : "returned normally", sc.task_throws ? "ended with an exception" : "ended normally");
            R.step(log.evs.size() + 1);
        }
        int expect_done = sc.n + (sc.cancel_who >= 0) + (sc.interval != 0);
        if (log.done != expect_done) R.fail("sched/single/not-all-finished", "%d of %d scripted coroutines finished", log.done, expect_done);
        long last = -1;
        int wakes[3] = {0, 0, 0}, cancels[3] = {0, 0, 0};
        for (auto &e : log.evs) {
            if (e.kind == 3) {
                R.fail("sched/single/interval-after-stop", "interval() produced a value after request_stop()");
                continue;
            }
            if (e.kind == 1) {
                if (e.at < e.want) R.fail("sched/single/early", "sleeper %d woke at %ld us, requested %ld us", e.who, e.at, e.want);
                if (e.at > e.want) R.fail("sched/single/late-while-idle", "sleeper %d woke at %ld us, requested %ld us although the thread was idle", e.who, e.at, e.want);
                if (e.at < last) R.fail("sched/single/order", "wake-ups not in deadline order");
                last = e.at;
                if (e.who < 3) wakes[e.who]++;
            } else if (e.who < 3)
                cancels[e.who]++;
        }
        for (int i = 0; i < sc.n; i++) {
            int total = wakes[i] + cancels[i];
            bool was_cancelled = cancels[i] > 0;
            if (cancels[i] > 1 || (!was_cancelled && total != 1 + sc.twice[i]) || total > 1 + sc.twice[i] || total == 0)
                R.fail("sched/single/exactly-once", "sleeper %d: %d wake-ups and %d cancellations for %d sleeps", i, wakes[i], cancels[i], 1 + sc.twice[i]);
        }
        if (sc.cancel_who >= 0) {
            // cancel reports true iff the target was still asleep at that moment
            int w = sc.cancel_who;
            bool asleep = false;
            long t = 0;
            for (int r = 0; r <= sc.twice[w]; r++) {
                long endt = t + sc.dur[w];
                if (sc.cancel_at < endt && sc.cancel_at >= t) asleep = true;
                // ties (cancel_at == endt) are decided by deadline order among equal deadlines: left open
                if (sc.cancel_at == endt) asleep = cancels[w] > 0 ? true : asleep;
                t = endt;
            }
            if (w >= sc.n) asleep = false;
            bool tie = false;
            t = 0;
            for (int r = 0; r <= sc.twice[w]; r++) {
                t += sc.dur[w];
                if (sc.cancel_at == t || sc.cancel_at == t - sc.dur[w]) tie = true;
            }
            if (!tie && cres != (int)asleep) R.fail("sched/single/cancel-result", "cancel() returned %d, target asleep=%d", cres, (int)asleep);
            if (cres == 1 && cancels[w] != 1) R.fail("sched/single/cancel-missed", "cancel() returned true but the sleeper saw %d cancellations", cancels[w]);
            if (cres == 0 && cancels[w] != 0) R.fail("sched/single/cancel-false-but-hit", "cancel() returned false but a sleeper was cancelled");
        }
        if (sc.interval > 0 && log.ticks != 2) R.fail("sched/single/interval-ticks", "interval produced %d ticks, expected 2", log.ticks);
        if (seqx_locked_count() != 0) R.fail("sched/mutex-left-locked", "a std::mutex is still locked at the end");
        R.state(seqx::hash_str(s_describe(sc)));
        R.outcome(seqx::mix((uint64_t)log.evs.size(), (uint64_t)cres + 5));
    }
    R.end(true);
}

// two interval generators on one scheduler; the stop token of the first fires while both sleep: exactly its own sleep ends
static cocls::async<void> two_tickers(cocls::scheduler &sch, int pa, int pb, int res[4]) {
    vstd::stop_source src;
    auto ga = sch.interval(units(pa), src.get_token());
    auto gb = sch.interval(units(pb));
    long t0 = us_of(vstd::chrono::system_clock::now());
    cocls::future<std::size_t> fa = ga();
    cocls::future<std::size_t> fb = gb();
    src.request_stop();
    bool ha = co_await fa.has_value();
    res[0] = ha ? 1 : 0;
    res[1] = (int)(us_of(vstd::chrono::system_clock::now()) - t0);
    bool hb = co_await fb.has_value();
    res[2] = hb ? 1 : 0;
    res[3] = (int)(us_of(vstd::chrono::system_clock::now()) - t0);
}
static void run_two_intervals(seqx::Runner &R, int pa, int pb) {
    char nm[64];
    snprintf(nm, sizeof nm, "two-intervals;a=%d;b=%d", pa, pb);
    R.begin(nm);
    {
        int res[4] = {-1, -1, -1, -1};
        {
            cocls::scheduler sch;
            cocls::future<void> task = two_tickers(sch, pa, pb, res).start();
            sch.start(task);
            R.step();
        }
        if (res[0] != 0 || res[1] != 0)
            R.fail("sched/single/stop-token-wrong-target", "the stopped interval generator %s after %d us (it must end at once, without a tick)", res[0] ? "ticked" : "ended", res[1]);
        if (res[2] != 1 || res[3] != pb * UNIT_US)
            R.fail("sched/single/stop-token-wrong-target", "the interval generator nobody stopped %s after %d us (its tick is due at %ld us)", res[2] == 1 ? "ticked" : "ended without a tick", res[3],
                   (long)pb * UNIT_US);
        R.outcome(seqx::mix((uint64_t)pa, (uint64_t)pb));
        R.state(seqx::hash_str(nm));
    }
    R.end(true);
}

// a sleep that the task given to start() does not wait for: start() returns when the task is done and leaves that sleep
// registered - even when it is already due at that moment, because the thread was busy past its time point. It is completed by a
// later start() (never cancelled unless somebody cancels it or the scheduler is destroyed).
extern "C" void seqx_busy_ns(int64_t ns);
static cocls::async<void> busy_sleeper(cocls::scheduler &sch, int dur, int busy) {
    co_await sch.sleep_for(units(dur));
    seqx_busy_ns((int64_t)busy * UNIT_US * 1000);  // works for a while before it finishes the task
}
static cocls::async<void> bystander(cocls::scheduler &sch, int dur, int res[3]) {
    long want = us_of(vstd::chrono::system_clock::now()) + dur * UNIT_US;
    res[2] = (int)want;
    try {
        co_await sch.sleep_for(units(dur));
        res[0] = 1;
    } catch (const cocls::await_canceled_exception &) {
        res[0] = 2;
    }
    res[1] = (int)us_of(vstd::chrono::system_clock::now());
}
static cocls::async<void> plain_sleeper(cocls::scheduler &sch, int dur) { co_await sch.sleep_for(units(dur)); }
static void run_leftover(seqx::Runner &R, int da, int busy, int db) {
    char nm[96];
    snprintf(nm, sizeof nm, "leftover-sleep;task_sleeps=%d;task_busy=%d;bystander_sleeps=%d", da, busy, db);
    R.begin(nm);
    {
        int res[3] = {0, 0, 0};  // 0 pending / 1 woke / 2 cancelled, when, wanted
        int at_first_return = -1, at_second_return = -1;
        {
            cocls::scheduler sch;
            bystander(sch, db, res).detach();
            cocls::future<void> task = busy_sleeper(sch, da, busy).start();
            sch.start(task);
            at_first_return = res[0];
            R.step();
            // second session: a task that outlasts the bystander's time point
            cocls::future<void> task2 = plain_sleeper(sch, db + 2).start();
            sch.start(task2);
            at_second_return = res[0];
            R.step();
        }
        if (at_first_return == 2)
            R.fail("sched/single/leftover-sleep-cancelled", "start(task) returned and a sleep nobody cancelled (due at %d us) had been completed with await_canceled_exception", res[2]);
        if (at_second_return != 1)
            R.fail("sched/single/leftover-sleep-lost", "a sleep left registered by the first start() (due at %d us) is %s after a second start() that ran past its time point", res[2],
                   at_second_return == 2 ? "cancelled" : "still pending");
        if (res[0] == 1 && res[1] < res[2]) R.fail("sched/single/early", "bystander woke at %d us, requested %d us", res[1], res[2]);
        R.outcome(seqx::mix((uint64_t)at_first_return, (uint64_t)(da * 100 + busy * 10 + db)));
        R.state(seqx::hash_str(nm));
    }
    R.end(true);
}

static void s_enum(seqx::Runner &R, bool thorough) {
    for (int da = 1; da <= 2; da++)
        for (int busy = 0; busy <= 2; busy++)
            for (int db = 1; db <= 5; db++)
                if (R.next_case()) run_leftover(R, da, busy, db);
    for (int pa = 1; pa <= 3; pa++)
        for (int pb = 1; pb <= 3; pb++)
            if (R.next_case()) run_two_intervals(R, pa, pb);
    static const int durs[] = {0, 1, 2, 3};
    int maxn = 3;
    for (int n = 1; n <= maxn; n++) {
        int d[3];
        int nd = thorough ? 4 : 3;
        for (d[0] = 0; d[0] < nd; d[0]++)
            for (d[1] = 0; d[1] < (n >= 2 ? nd : 1); d[1]++)
                for (d[2] = 0; d[2] < (n >= 3 ? nd : 1); d[2]++)
                    for (int tw = 0; tw < (thorough ? (1 << n) : 2); tw++)
                        for (int cw = -1; cw < n; cw++)
                            for (int ca = 0; ca < (cw < 0 ? 1 : 4); ca++)
                                for (int iv = -1; iv <= 2; iv++) {
                                    if (R.stop()) return;
                                    SScript s{};
                                    s.n = n;
                                    for (int i = 0; i < 3; i++) {
                                        s.dur[i] = durs[d[i]];
                                        s.twice[i] = i < n ? (tw >> i) & 1 : 0;
                                    }
                                    s.cancel_who = cw;
                                    s.cancel_at = ca;
                                    s.interval = iv;
                                    if (R.next_case()) run_single(R, s);
                                    if (iv == 0 && ca == 0) {
                                        s.task_throws = 1;
                                        if (R.next_case()) run_single(R, s);
                                    }
                                }
    }
}


// ------------------------------------------------------------------------------------------------ part H
// heap shapes: k sleeps with distinct deadlines scheduled in every order, one of them cancelled, then time is stepped
// through every deadline; after each step the reported next deadline and the completed sleeps must follow the model
static char h_ids[8];
static void run_heap(seqx::Runner &R, const std::vector<int> &order, int cancel_idx) {
    std::ostringstream d;
    d << "heap;order=";
    for (size_t i = 0; i < order.size(); i++) d << (i ? "," : "") << order[i];
    d << ";cancel=" << cancel_idx;
    R.begin(d.str());
    int64_t base = seqx::live_allocs();
    {
        auto sch = std::make_unique<cocls::scheduler>();
        size_t k = order.size();
        std::vector<std::unique_ptr<cocls::future<void>>> futs;
        std::vector<int> state(k, 0);  // 0 pending 1 expired 2 cancelled
        for (size_t i = 0; i < k; i++) futs.emplace_back(new cocls::future<void>(sch->sleep_until(at(order[i]), &h_ids[i])));
        R.step(k);
        bool ok = true;
        if (cancel_idx >= 0) {
            bool r = sch->cancel(&h_ids[cancel_idx]);
            if (!r) {
                R.fail("sched/cancel-false-with-pending-target", "cancel of pending sleep #%d (deadline %d) returned false", cancel_idx, order[(size_t)cancel_idx]);
                ok = false;
            }
            state[(size_t)cancel_idx] = 2;
            if (ok && fut_state(*futs[(size_t)cancel_idx]) != 2) {
                R.fail("sched/none-completed", "cancelled sleep did not complete with await_canceled_exception");
                ok = false;
            }
        }
        int maxd = 0;
        for (int x : order) maxd = std::max(maxd, x);
        for (int now = 0; now <= maxd && ok; now++) {
            // drain everything due at 'now'
            for (;;) {
                int mintp = INT32_MAX;
                for (size_t i = 0; i < k; i++)
                    if (state[i] == 0 && order[i] < mintp) mintp = order[i];
                cocls::scheduler::expired e = sch->get_expired(at(now));
                R.step();
                if (std::holds_alternative<cocls::scheduler::promise>(e)) {
                    std::get<cocls::scheduler::promise>(e)();
                    if (mintp > now) {
                        R.fail("sched/expired-early", "at time %d a sleep was handed out although the earliest pending deadline is %d", now, mintp);
                        ok = false;
                        break;
                    }
                    int changed = -1, n = 0;
                    for (size_t i = 0; i < k; i++)
                        if (state[i] == 0 && fut_state(*futs[i]) == 1) {
                            changed = (int)i;
                            n++;
                        }
                    if (n != 1 || order[(size_t)changed] != mintp) {
                        R.fail("sched/deadline-order", "at time %d the scheduler completed the sleep with deadline %d, the earliest pending deadline is %d", now,
                               changed >= 0 ? order[(size_t)changed] : -1, mintp);
                        ok = false;
                        break;
                    }
                    state[(size_t)changed] = 1;
                    continue;
                }
                tp_t t = std::get<tp_t>(e);
                if (mintp <= now) {
                    R.fail("sched/expired-not-reported", "at time %d a sleep with deadline %d is due but get_expired returned a time point", now, mintp);
                    ok = false;
                } else {
                    tp_t expect = mintp == INT32_MAX ? tp_t::max() : at(mintp);
                    if (t != expect) {
                        R.fail("sched/next-deadline", "at time %d the nearest pending deadline is %d, but the scheduler reports %ld", now, mintp == INT32_MAX ? -1 : mintp,
                               t == tp_t::max() ? -1L : ms_of(t));
                        ok = false;
                    }
                }
                break;
            }
        }
        sch.reset();
        for (auto &f : futs)
            if (!f->ready()) (void)f.release();
        R.state(seqx::hash_str(d.str()));
        R.outcome((uint64_t)cancel_idx + 1);
    }
    if (!R.case_fail && seqx::live_allocs() != base) R.fail("sched/allocation-balance", "%ld allocations not released", (long)(seqx::live_allocs() - base));
    R.end(true);
}
static void h_enum(seqx::Runner &R, int k) {
    std::vector<int> order;
    for (int i = 1; i <= k; i++) order.push_back(i * 2);
    do {
        for (int c = -1; c < k; c++) {
            if (R.stop()) return;
            if (R.next_case()) run_heap(R, order, c);
        }
    } while (std::next_permutation(order.begin(), order.end()));
}

}  // namespace

void seqx_run(seqx::Runner &R, const std::string &tier) {
    bool q = tier == "quick";
    std::vector<int> seq;
    int all[NMOPS];
    for (int i = 0; i < NMOPS; i++) all[i] = i;
    m_dfs(R, q ? 5 : 6, seq, 0, all, NMOPS);
    // deeper histories over the sub-alphabet that exercises removal of non-top entries and id reuse
    static const int sub[] = {0, 1, 4, 5, 8, 9, 11, 12, 13};
    m_dfs(R, q ? 6 : 8, seq, 0, sub, 9);
    s_enum(R, !q);
    h_enum(R, 5);
    h_enum(R, 6);
    if (!q) h_enum(R, 7);
}

void seqx_replay(seqx::Runner &R, const std::string &c) {
    R.next_case();
    if (c.rfind("heap;", 0) == 0) {
        std::vector<int> order;
        std::stringstream ss(c.substr(c.find("order=") + 6, c.find(";cancel=") - c.find("order=") - 6));
        std::string tok;
        while (std::getline(ss, tok, ',')) order.push_back(atoi(tok.c_str()));
        run_heap(R, order, atoi(c.c_str() + c.find("cancel=") + 7));
    } else if (c.rfind("leftover-sleep;", 0) == 0) {
        int da = 1, busy = 0, db = 1;
        sscanf(c.c_str(), "leftover-sleep;task_sleeps=%d;task_busy=%d;bystander_sleeps=%d", &da, &busy, &db);
        run_leftover(R, da, busy, db);
    } else if (c.rfind("two-intervals;", 0) == 0) {
        int pa = 1, pb = 1;
        sscanf(c.c_str(), "two-intervals;a=%d;b=%d", &pa, &pb);
        run_two_intervals(R, pa, pb);
    } else if (c.rfind("manual;", 0) == 0) {
        std::vector<int> seq;
        std::stringstream ss(c.substr(c.find("ops=") + 4));
        std::string tok;
        while (ss >> tok)
            for (int i = 0; i < NMOPS; i++)
                if (tok == MOPS[i].name) seq.push_back(i);
        run_manual(R, seq);
    } else {
        SScript s{};
        sscanf(c.c_str(), "single;n=%d;dur=%d,%d,%d;twice=%d,%d,%d;cancel=%d@%d;interval=%d;task_throws=%d", &s.n, &s.dur[0], &s.dur[1], &s.dur[2], &s.twice[0],
               &s.twice[1], &s.twice[2], &s.cancel_who, &s.cancel_at, &s.interval, &s.task_throws);
        run_single(R, s);
    }
}

SEQX_MAIN()
