// C04 (threaded cells) - async coroutine completion after suspension on another thread, join() against a suspended
// chain, and start through thread_pool::run().
#include "common_vrt.h"
#include <cocls/thread_pool.h>
#include <memory>

namespace {
// scratch: runs per level 0..3, guard live 10, observed kind 11, val 12, ran-on-thread 13
struct Guard {
    Guard() { vrt_scratch()[10]++; }
    Guard(const Guard &) { vrt_scratch()[10]++; }
    Guard(Guard &&) noexcept { vrt_scratch()[10]++; }
    ~Guard() { vrt_scratch()[10]--; }
};
static cocls::async<Counted> level(cocls::future<void> &gate, int k, bool thr, Guard arg) {
    Guard local;
    (void)arg;
    vrt_scratch()[k]++;
    if (k > 1) {
        Counted v = co_await level(gate, k - 1, thr, Guard());
        co_return v;
    }
    co_await gate;
    vrt_scratch()[13] = vrt_self();
    if (thr) throw TestError(3);
    co_return Counted(42);
}
static void observe(cocls::future<Counted> &f) {
    int64_t *s = vrt_scratch();
    try {
        Counted &c = f.value();
        s[11] = c.ok() ? 1 : 8;
        s[12] = c.a;
    } catch (const TestError &) {
        s[11] = 2;
    } catch (const cocls::await_canceled_exception &) {
        s[11] = 3;
    }
}
enum Mode { M_JOIN = 0, M_START_WAIT, M_FUTURE_CTOR_CORO_WAITER, M_POOL_RUN, NM };
static const char *m_names[] = {"join", "start-wait", "future-coroawait", "pool-run"};

static cocls::async<void> waiter_coro(cocls::future<Counted> &f) {
    int64_t *s = vrt_scratch();
    try {
        Counted &c = co_await f;
        s[11] = c.ok() ? 1 : 8;
        s[12] = c.a;
    } catch (const TestError &) {
        s[11] = 2;
    }
}

static void scenario(int mode, int depth, bool thr) {
    int64_t *s = vrt_scratch();
    {
        cocls::future<void> gate;
        cocls::promise<void> gp = gate.get_promise();
        std::unique_ptr<cocls::thread_pool> pool;
        std::unique_ptr<cocls::future<Counted>> late;
        vstd::thread rt([&] {
            vrt_label("resolver");
            gp();  // resumes the parked chain on this thread
        });
        vrt_label("starter");
        if (mode == M_JOIN) {
            try {
                Counted v = level(gate, depth, thr, Guard()).join();  // blocks until the resolver thread completed the chain
                s[11] = v.ok() ? 1 : 8;
                s[12] = v.a;
            } catch (const TestError &) {
                s[11] = 2;
            }
        } else if (mode == M_START_WAIT) {
            cocls::future<Counted> f = level(gate, depth, thr, Guard()).start();
            f.sync();
            observe(f);
        } else if (mode == M_FUTURE_CTOR_CORO_WAITER) {
            late.reset(new cocls::future<Counted>(level(gate, depth, thr, Guard())));
            waiter_coro(*late).detach();
            vrt_label("starter-wait-observer");
            while (!s[11]) vrt_yield();  // scratch gives no happens-before: the future is destroyed only after rt.join() below
        } else {
            pool.reset(new cocls::thread_pool(1));
            cocls::future<Counted> f = pool->run(level(gate, depth, thr, Guard()));
            f.sync();
            observe(f);
            VRT_CHECK(s[depth] == 1, "async/body-count", "pool-run body did not run");
        }
        vrt_label("main");
        rt.join();
        late.reset();
        pool.reset();
        for (int k = 1; k <= 3; k++) VRT_CHECK(s[k] == (k <= depth ? 1 : 0), "async/body-count", "body of level %d ran %ld times", k, (long)s[k]);
        VRT_CHECK(s[11] == (thr ? 2 : 1) && (thr || s[12] == 42), "async/wrong-delivery", "bound party observed kind=%ld val=%ld", (long)s[11], (long)s[12]);
    }
    VRT_CHECK(s[10] == 0, "async/raii-balance", "%ld argument/local guards alive at the end", (long)s[10]);
    VRT_CHECK(Counted::live() == 0, "async/value-lifetime", "%ld values alive at the end", (long)Counted::live());
    vrt_outcome("thread=%ld", (long)s[13]);
}

// start(promise) racing with a direct call of the same promise on another thread: exactly one of them binds the future
static cocls::async<Counted> simple_body(Guard arg) {
    (void)arg;
    vrt_scratch()[1]++;
    co_return Counted(42);
}
static void start_vs_call() {
    int64_t *s = vrt_scratch();
    {
        cocls::future<Counted> f;
        cocls::promise<Counted> p = f.get_promise();
        vstd::thread other([&] {
            vrt_label("competing-call");
            s[20] = p(Counted(7)) ? 1 : 2;
        });
        vrt_label("starter");
        {
            auto co = simple_body(Guard());
            s[21] = co.start(p) ? 1 : 2;
            // an unstarted coroutine object is destroyed here without running
        }
        vrt_label("main");
        other.join();
        VRT_CHECK((s[20] == 1) != (s[21] == 1), "async/start-promise-two-winners", "start(promise) returned %s and the competing promise call returned %s", s[21] == 1 ? "true" : "false",
                  s[20] == 1 ? "true" : "false");
        VRT_CHECK(s[1] == (s[21] == 1 ? 1 : 0), "async/body-count", "start(promise) returned %s but the body ran %ld times", s[21] == 1 ? "true" : "false", (long)s[1]);
        observe(f);
        VRT_CHECK(s[11] == 1 && s[12] == (s[21] == 1 ? 42 : 7), "async/wrong-delivery", "future holds %ld, winner was %s", (long)s[12], s[21] == 1 ? "the coroutine" : "the competing call");
    }
    VRT_CHECK(s[10] == 0, "async/raii-balance", "%ld argument guards alive at the end", (long)s[10]);
    VRT_CHECK(Counted::live() == 0, "async/value-lifetime", "%ld values alive at the end", (long)Counted::live());
    vrt_outcome("coroutine_won=%d", s[21] == 1);
}

VRT_REGISTER(reg_async) {
    vrt::add("async_start-vs-call", [] { start_vs_call(); });
    for (int m = 0; m < NM; m++)
        for (int depth = 1; depth <= 3; depth++)
            for (int thr = 0; thr < 2; thr++)
                vrt::add(std::string("async_") + m_names[m] + "_d" + std::to_string(depth) + (thr ? "_throw" : ""), [=] { scenario(m, depth, thr != 0); });
}
}  // namespace
int main(int argc, char **argv) { return vrt_main(argc, argv); }
