// C02 - no lost, early or duplicate wake-up of a future's waiters.
// 1..3 waiters of every kind on their own threads against a resolver of every kind; whether a waiter subscribes
// before, during or after the resolution is decided by the explored schedule, not by the script.
#include "common_vrt.h"
#include <atomic>
#include <memory>

namespace {

// opnot / opbool: a thread that asks `!f` / `bool(f)` - both documented to block like wait() while the future is pending
enum WKind { W_CORO = 0, W_WAIT, W_SYNC, W_CB, W_HASV, W_POLL, W_CBFN, W_OPNOT, W_OPBOOL, W_NK };
static const char *wk_names[] = {"coro", "wait", "sync", "cb", "hasv", "poll", "cbfn", "opnot", "opbool"};
enum { W_PAIRED = W_OPNOT };  // kinds below this one are combined with each other in the two-waiter scenarios
enum RKind { R_VAL = 0, R_EXC, R_DROP, R_DESTROY, R_ASYNC, R_ASYNCEXC, R_ASSIGN, R_NK };
static const char *rk_names[] = {"val", "exc", "drop", "destroy", "async", "asyncexc", "assign"};

// scratch: released count per waiter, kind seen, value seen, subscription path (1 = had to suspend/block, 2 = found ready)
enum { S_REL = 0, S_KIND = 4, S_VAL = 8, S_PATH = 12 };

struct Obs {
    int kind = 0;
    long val = 0;
};
static Obs observe(cocls::future<Counted> &f) {
    Obs o;
    try {
        Counted &c = f.value();
        if (!c.ok()) vrt_fail("future/torn-value", "released waiter read a value with a broken checksum: a=%ld b=%ld", c.a, c.b);
        o.kind = 1;
        o.val = c.a;
    } catch (const TestError &e) {
        o.kind = 2;
        o.val = e.code;
    } catch (const cocls::await_canceled_exception &) {
        o.kind = 3;
    } catch (const cocls::value_not_ready_exception &) {
        o.kind = 4;  // released before the result was set
    }
    // a released waiter must find the future resolved (checked after the payload was read so that this acquire load
    // cannot hide a publication race from the race oracle)
    if (!f.ready()) vrt_fail("future/early-wakeup", "a waiter was released although the future is not marked resolved yet (payload kind %d)", o.kind);
    return o;
}
static void released(int id, Obs o) {
    int64_t *s = vrt_scratch();
    s[S_REL + id]++;
    s[S_PATH + id] = vrt_self();
    s[S_KIND + id] = o.kind;
    s[S_VAL + id] = o.val;
    if (o.kind == 4) vrt_fail("future/early-wakeup", "waiter %d was released while the future was not resolved", id);
}

static cocls::async<void> coro_waiter(cocls::future<Counted> &f, int id) {
    Obs o;
    try {
        Counted &c = co_await f;
        if (!c.ok()) vrt_fail("future/torn-value", "coroutine read a value with a broken checksum");
        o.kind = 1;
        o.val = c.a;
    } catch (const TestError &e) {
        o.kind = 2;
        o.val = e.code;
    } catch (const cocls::await_canceled_exception &) {
        o.kind = 3;
    }
    released(id, o);
}
static cocls::async<void> hasv_waiter(cocls::future<Counted> &f, int id) {
    bool hv = co_await f.has_value();
    Obs o = observe(f);
    if (hv != (o.kind != 3)) vrt_fail("future/has_value-mismatch", "co_await has_value()=%d but value() reports kind %d", (int)hv, o.kind);
    released(id, o);
}

struct CbAwaiter : cocls::awaiter {
    cocls::future<Counted> *f;
    int id;
    CbAwaiter(cocls::future<Counted> &ff, int i) : f(&ff), id(i) {
        set_resume_fn([](cocls::awaiter *me, void *) noexcept -> cocls::suspend_point<void> {
            auto *self = static_cast<CbAwaiter *>(me);
            released(self->id, observe(*self->f));
            return {};
        });
    }
};

// the library's own callback registration: co_awaiter::await_suspend(resume_fn, context) - what thread_pool's
// pool(awaitable), immediately() and parallel() use; the co_awaiter itself is the node in the awaiter chain
struct FnCtx {
    cocls::future<Counted> *f;
    int id;
};
static cocls::suspend_point<void> fn_released(cocls::awaiter *, void *ctx) noexcept {
    auto *c = static_cast<FnCtx *>(ctx);
    if (!c) {
        vrt_fail("future/callback-without-context", "the registered callback was invoked without its context pointer");
        return {};
    }
    released(c->id, observe(*c->f));
    return {};
}
using FnAwaiter = cocls::co_awaiter<cocls::future<Counted>>;

static void waiter_thread(cocls::future<Counted> &f, int id, int kind, CbAwaiter *cb, FnAwaiter *fnaw, FnCtx *fnctx) {
    static const char *labels[] = {"w0", "w1", "w2"};
    vrt_label(labels[id]);
    switch (kind) {
        case W_CORO: coro_waiter(f, id).detach(); break;
        case W_HASV: hasv_waiter(f, id).detach(); break;
        case W_WAIT: {
            Obs o;
            try {
                Counted &c = f.wait();
                if (!c.ok()) vrt_fail("future/torn-value", "wait() returned a value with a broken checksum");
                o.kind = 1;
                o.val = c.a;
            } catch (const TestError &e) {
                o.kind = 2;
                o.val = e.code;
            } catch (const cocls::await_canceled_exception &) {
                o.kind = 3;
            }
            released(id, o);
            break;
        }
        case W_SYNC:
            f.sync();
            released(id, observe(f));
            break;
        case W_CB: {
            cocls::co_awaiter<cocls::future<Counted>> aw(f);
            if (!aw.subscribe(cb)) released(id, observe(f));  // already resolved: documented contract is "call await_resume yourself"
            break;
        }
        case W_CBFN:
            if (!fnaw->await_suspend(&fn_released, fnctx)) released(id, observe(f));  // false: already resolved, nothing registered
            break;
        case W_POLL:
            while (!f.ready()) vrt_yield();
            released(id, observe(f));
            break;
        case W_OPNOT:
        case W_OPBOOL: {
            bool has = kind == W_OPNOT ? !(!f) : bool(f);
            Obs o = observe(f);  // kind 4 = not resolved yet: the operator came back early
            if (o.kind != 4 && has != (o.kind == 1 || o.kind == 2))
                vrt_fail("future/has_value-mismatch", "%s said has_value=%d, the result is of kind %d", kind == W_OPNOT ? "operator!" : "operator bool", (int)has, o.kind);
            released(id, o);
            break;
        }
    }
}

static cocls::async<Counted> async_source(cocls::future<void> &gate, bool thr) {
    co_await gate;
    if (thr) throw TestError(77);
    co_return Counted(42);
}

static void scenario(int nw, const int *wk, int rk) {
    int64_t *s = vrt_scratch();
    {
        cocls::future<void> gate;
        cocls::promise<void> gate_p = gate.get_promise();
        std::unique_ptr<cocls::future<Counted>> f;
        cocls::promise<Counted> p;
        if (rk == R_ASYNC || rk == R_ASYNCEXC) {
            // the future is bound to an async coroutine that is itself suspended on a gate
            f.reset(new cocls::future<Counted>(async_source(gate, rk == R_ASYNCEXC)));
        } else {
            f.reset(new cocls::future<Counted>());
            p = f->get_promise();
            gate_p();  // gate unused
        }
        CbAwaiter cbs[3] = {CbAwaiter(*f, 0), CbAwaiter(*f, 1), CbAwaiter(*f, 2)};
        vstd::thread wt[3], rt;
        FnAwaiter fnaws[3] = {FnAwaiter(*f), FnAwaiter(*f), FnAwaiter(*f)};
        FnCtx fnctx[3] = {{f.get(), 0}, {f.get(), 1}, {f.get(), 2}};
        for (int i = 0; i < nw; i++) wt[i] = vstd::thread(waiter_thread, std::ref(*f), i, wk[i], &cbs[i], &fnaws[i], &fnctx[i]);
        rt = vstd::thread([&] {
            vrt_label("resolver");
            switch (rk) {
                case R_VAL: p(Counted(42)); break;
                case R_EXC: p(std::make_exception_ptr(TestError(77))); break;
                case R_DROP: p(cocls::drop); break;
                case R_DESTROY: {
                    cocls::promise<Counted> q(std::move(p));
                    break;
                }
                case R_ASSIGN: p = cocls::promise<Counted>(); break;  // overwriting the promise gives the future up: no-value
                default: gate_p(); break;  // resumes the async coroutine, whose completion resolves f
            }
        });
        rt.join();
        vrt_label("main-join-waiters");
        for (int i = 0; i < nw; i++) wt[i].join();
        vrt_label("main");
        Obs expect;
        switch (rk) {
            case R_VAL:
            case R_ASYNC: expect = {1, 42}; break;
            case R_EXC:
            case R_ASYNCEXC: expect = {2, 77}; break;
            default: expect = {3, 0}; break;
        }
        for (int i = 0; i < nw; i++) {
            VRT_CHECK(s[S_REL + i] != 0, "future/lost-wakeup", "waiter %d (%s) was never released although the future is resolved", i, wk_names[wk[i]]);
            VRT_CHECK(s[S_REL + i] == 1, "future/duplicate-wakeup", "waiter %d (%s) was released %ld times", i, wk_names[wk[i]], (long)s[S_REL + i]);
            VRT_CHECK(s[S_KIND + i] == expect.kind && s[S_VAL + i] == expect.val, "future/wrong-result", "waiter %d saw kind=%ld val=%ld expected kind=%d val=%ld", i,
                      (long)s[S_KIND + i], (long)s[S_VAL + i], expect.kind, expect.val);
        }
        VRT_CHECK(f->ready(), "future/not-resolved", "future not ready at the end");
        f.reset();
    }
    VRT_CHECK(Counted::live() == 0, "future/value-lifetime", "%ld Counted objects alive at the end", (long)Counted::live());
    vrt_outcome("released-on-thread %ld %ld %ld", (long)s[S_PATH], (long)s[S_PATH + 1], (long)s[S_PATH + 2]);
}

// call_fn_future_awaiter: a member function is the waiter; the awaiter owns the future it waits for (created by the
// function handed to operator<<) and registers itself in the same step. The promise reaches the resolver thread from
// inside that function, so the resolution can land anywhere in the registration.
struct CallFnOwner {
    cocls::suspend_point<void> done(cocls::future<Counted> &f) noexcept {
        released(0, observe(f));
        return {};
    }
};
static void callfn_scenario(int rk) {
    int64_t *s = vrt_scratch();
    {
        cocls::promise<Counted> slot;
        std::atomic<int> have{0};
        CallFnOwner owner;
        auto aw = std::make_unique<cocls::call_fn_future_awaiter<&CallFnOwner::done>>(owner);
        vstd::thread wt([&] {
            vrt_label("w0");
            *aw << [&] {
                return cocls::future<Counted>([&](cocls::promise<Counted> p) {
                    slot = std::move(p);
                    have.store(1);
                });
            };
        });
        vstd::thread rt([&] {
            vrt_label("resolver");
            while (!have.load()) vrt_yield();
            switch (rk) {
                case R_VAL: slot(Counted(42)); break;
                case R_EXC: slot(std::make_exception_ptr(TestError(77))); break;
                case R_DROP: slot(cocls::drop); break;
                default: {
                    cocls::promise<Counted> q(std::move(slot));
                    break;
                }
            }
        });
        rt.join();
        wt.join();
        Obs expect = rk == R_VAL ? Obs{1, 42} : rk == R_EXC ? Obs{2, 77} : Obs{3, 0};
        VRT_CHECK(s[S_REL] != 0, "future/lost-wakeup", "the member-function waiter was never called although the future is resolved");
        VRT_CHECK(s[S_REL] == 1, "future/duplicate-wakeup", "the member-function waiter was called %ld times", (long)s[S_REL]);
        VRT_CHECK(s[S_KIND] == expect.kind && s[S_VAL] == expect.val, "future/wrong-result", "waiter saw kind=%ld val=%ld expected kind=%d val=%ld", (long)s[S_KIND], (long)s[S_VAL], expect.kind,
                  expect.val);
        aw.reset();
    }
    VRT_CHECK(Counted::live() == 0, "future/value-lifetime", "%ld Counted objects alive at the end", (long)Counted::live());
    vrt_outcome("released-on-thread %ld", (long)s[S_PATH]);
}

// one awaiter object re-used for several operations in a row: two futures that are already resolved when it registers,
// then one that is resolved by another thread - every operation must call the member function exactly once
struct ReuseOwner {
    int calls = 0;
    long last = 0;
    cocls::suspend_point<void> done(cocls::future<Counted> &f) noexcept {
        Obs o = observe(f);
        calls++;
        last = o.kind == 1 ? o.val : -o.kind;
        return {};
    }
};
static void callfn_reuse_scenario() {
    {
        ReuseOwner owner;
        auto aw = std::make_unique<cocls::call_fn_future_awaiter<&ReuseOwner::done>>(owner);
        for (int k = 1; k <= 2; k++) {
            *aw << [k] { return cocls::future<Counted>::set_value(Counted(40 + k)); };
            VRT_CHECK(owner.calls == k, owner.calls < k ? "future/lost-wakeup" : "future/duplicate-wakeup", "re-used awaiter: %d calls after %d already resolved operations", owner.calls, k);
            VRT_CHECK(owner.last == 40 + k, "future/wrong-result", "re-used awaiter saw %ld in operation %d", owner.last, k);
        }
        cocls::promise<Counted> slot;
        *aw << [&] { return cocls::future<Counted>([&](cocls::promise<Counted> p) { slot = std::move(p); }); };
        VRT_CHECK(owner.calls == 2, "future/early-wakeup", "re-used awaiter was called before its third operation was resolved");
        vstd::thread rt([&] {
            vrt_label("resolver");
            slot(Counted(43));
        });
        rt.join();
        VRT_CHECK(owner.calls == 3 && owner.last == 43, owner.calls < 3 ? "future/lost-wakeup" : "future/duplicate-wakeup", "re-used awaiter: %d calls after three operations (last value %ld)", owner.calls,
                  owner.last);
        aw.reset();
    }
    VRT_CHECK(Counted::live() == 0, "future/value-lifetime", "%ld Counted objects alive at the end", (long)Counted::live());
    vrt_outcome("ok");
}

// a callback awaiter that re-arms itself from inside its callback (subscribes to the next future) shares the first
// future with other waiters: releasing the chain must not follow the re-armed awaiter into the other future's chain
struct Rearmer : cocls::awaiter {
    cocls::future<Counted> *next = nullptr;
    int calls = 0;
    Rearmer() {
        set_resume_fn([](cocls::awaiter *me, void *) noexcept -> cocls::suspend_point<void> {
            auto *s = static_cast<Rearmer *>(me);
            s->calls++;
            if (s->next) {
                cocls::future<Counted> *n = s->next;
                s->next = nullptr;
                cocls::co_awaiter<cocls::future<Counted>> aw(*n);
                if (!aw.subscribe(s)) s->calls++;
            }
            return {};
        });
    }
};
static void rearm_scenario(int nothers, bool second_has_waiter) {
    int64_t *s = vrt_scratch();
    {
        cocls::future<Counted> f1, f2;
        cocls::promise<Counted> p1 = f1.get_promise(), p2 = f2.get_promise();
        CbAwaiter others[2] = {CbAwaiter(f1, 0), CbAwaiter(f1, 1)};
        CbAwaiter late(f2, 2);
        for (int i = 0; i < nothers; i++) {
            cocls::co_awaiter<cocls::future<Counted>> aw(f1);
            aw.subscribe(&others[i]);
        }
        if (second_has_waiter) {
            cocls::co_awaiter<cocls::future<Counted>> aw(f2);
            aw.subscribe(&late);
        }
        Rearmer r;
        r.next = &f2;
        {
            cocls::co_awaiter<cocls::future<Counted>> aw(f1);
            aw.subscribe(&r);  // subscribed last: first in the chain
        }
        vstd::thread rt([&] {
            vrt_label("resolver");
            p1(Counted(42));
        });
        rt.join();
        VRT_CHECK(r.calls == 1, "future/duplicate-wakeup", "re-arming awaiter was called %d times by the first resolution", r.calls);
        for (int i = 0; i < nothers; i++)
            VRT_CHECK(s[S_REL + i] == 1, s[S_REL + i] ? "future/duplicate-wakeup" : "future/lost-wakeup", "waiter %d of the first future was released %ld times after its resolution", i,
                      (long)s[S_REL + i]);
        VRT_CHECK(s[S_REL + 2] == 0, "future/early-wakeup", "a waiter of the second future was released although that future is still pending");
        p2(Counted(43));
        VRT_CHECK(r.calls == 2, r.calls < 2 ? "future/lost-wakeup" : "future/duplicate-wakeup", "re-arming awaiter: %d calls after both resolutions", r.calls);
        if (second_has_waiter) VRT_CHECK(s[S_REL + 2] == 1, "future/lost-wakeup", "the waiter of the second future was released %ld times", (long)s[S_REL + 2]);
    }
    VRT_CHECK(Counted::live() == 0, "future/value-lifetime", "%ld Counted objects alive at the end", (long)Counted::live());
    vrt_outcome("ok");
}
// future << factory where the factory throws before it returns a future: the future is resolved with that exception
static void throwing_factory_scenario(int wk) {
    int64_t *s = vrt_scratch();
    {
        cocls::future<Counted> f;
        f << []() -> cocls::future<Counted> { throw TestError(77); };
        VRT_CHECK(f.ready(), "future/not-resolved", "a future whose factory threw is not marked resolved");
        CbAwaiter cb(f, 0);
        FnAwaiter fnaw(f);
        FnCtx fnctx{&f, 0};
        vstd::thread wt(waiter_thread, std::ref(f), 0, wk, &cb, &fnaw, &fnctx);
        vrt_label("main-join-waiters");
        wt.join();
        vrt_label("main");
        VRT_CHECK(s[S_REL] == 1, s[S_REL] ? "future/duplicate-wakeup" : "future/lost-wakeup", "waiter (%s) released %ld times", wk_names[wk], (long)s[S_REL]);
        VRT_CHECK(s[S_KIND] == 2 && s[S_VAL] == 77, "future/wrong-result", "waiter saw kind=%ld val=%ld, expected the factory's exception", (long)s[S_KIND], (long)s[S_VAL]);
    }
    vrt_outcome("ok");
}

// futures that are born resolved (static factories set_value / set_exception / set_not_value): a waiter of any kind that
// comes afterwards is released at once with that result
static void prefab_scenario(int wk, int how) {
    int64_t *s = vrt_scratch();
    {
        cocls::future<Counted> f = how == 0   ? cocls::future<Counted>::set_value(Counted(42))
                                   : how == 1 ? cocls::future<Counted>::set_exception(std::make_exception_ptr(TestError(77)))
                                              : cocls::future<Counted>::set_not_value();
        CbAwaiter cb(f, 0);
        FnAwaiter fnaw(f);
        FnCtx fnctx{&f, 0};
        vstd::thread wt(waiter_thread, std::ref(f), 0, wk, &cb, &fnaw, &fnctx);
        vrt_label("main-join-waiters");
        wt.join();
        vrt_label("main");
        VRT_CHECK(s[S_REL] == 1, s[S_REL] ? "future/duplicate-wakeup" : "future/lost-wakeup", "waiter (%s) on a future born resolved was released %ld times", wk_names[wk], (long)s[S_REL]);
        Obs expect = how == 0 ? Obs{1, 42} : how == 1 ? Obs{2, 77} : Obs{3, 0};
        VRT_CHECK(s[S_KIND] == expect.kind && s[S_VAL] == expect.val, "future/wrong-result", "waiter saw kind=%ld val=%ld expected kind=%d val=%ld", (long)s[S_KIND], (long)s[S_VAL], expect.kind,
                  expect.val);
        VRT_CHECK(f.ready(), "future/not-resolved", "a future made by a static factory is not ready");
    }
    VRT_CHECK(Counted::live() == 0, "future/value-lifetime", "%ld Counted objects alive at the end", (long)Counted::live());
    vrt_outcome("ok");
}

VRT_REGISTER(reg_wake) {
    vrt::add("wake1_callfn_reuse", [] { callfn_reuse_scenario(); });
    static const char *prefab_names[] = {"val", "exc", "noval"};
    for (int wk = 0; wk < W_NK; wk++)
        for (int how = 0; how < 3; how++) vrt::add(std::string("wake1_prefab-") + prefab_names[how] + "_" + wk_names[wk], [=] { prefab_scenario(wk, how); });
    for (int n = 1; n <= 2; n++)
        for (int w = 0; w < 2; w++) vrt::add("wake2_rearm_others" + std::to_string(n) + (w ? "_second-has-waiter" : ""), [=] { rearm_scenario(n, w != 0); });
    for (int wk = 0; wk < W_NK; wk++) vrt::add(std::string("wake1_throwing-factory_") + wk_names[wk], [=] { throwing_factory_scenario(wk); });
    for (int rk = 0; rk <= R_DESTROY; rk++) vrt::add(std::string("wake1_callfn_") + rk_names[rk], [=] { callfn_scenario(rk); });
    for (int rk = 0; rk < R_NK; rk++) {
        // one waiter: every kind
        for (int a = 0; a < W_NK; a++) {
            std::string name = std::string("wake1_") + wk_names[a] + "_" + rk_names[rk];
            vrt::add(name, [=] {
                int wk[3] = {a, 0, 0};
                scenario(1, wk, rk);
            });
        }
        // two waiters: all unordered pairs
        for (int a = 0; a < W_PAIRED; a++)
            for (int b = a; b < W_PAIRED; b++) {
                std::string name = std::string("wake2_") + wk_names[a] + "-" + wk_names[b] + "_" + rk_names[rk];
                vrt::add(name, [=] {
                    int wk[3] = {a, b, 0};
                    scenario(2, wk, rk);
                });
            }
        // three waiters: a few mixes
        static const int mixes[][3] = {{W_CORO, W_CORO, W_CORO}, {W_CORO, W_WAIT, W_CB}, {W_WAIT, W_WAIT, W_WAIT}, {W_HASV, W_SYNC, W_POLL}, {W_CB, W_CB, W_CORO}, {W_CBFN, W_CBFN, W_WAIT}};
        for (auto &m : mixes) {
            std::string name = std::string("wake3_") + wk_names[m[0]] + "-" + wk_names[m[1]] + "-" + wk_names[m[2]] + "_" + rk_names[rk];
            int a = m[0], b = m[1], c = m[2];
            vrt::add(name, [=] {
                int wk[3] = {a, b, c};
                scenario(3, wk, rk);
            });
        }
    }
}

}  // namespace

int main(int argc, char **argv) { return vrt_main(argc, argv); }
