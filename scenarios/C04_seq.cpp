// C04 (sequential cells) - an async coroutine runs once, delivers to its bound party, frees once.
// Product: start mode x completion mode x result type x nesting depth of co_await chains; every cell executed.
#include <cocls/future.h>
#include <cocls/async.h>

#include <memory>
#include <sstream>

#include "../engine/seqx/seqx.h"
#include "common_seq.h"
#include <vector>

namespace {

struct TestError : std::exception {};

static long g_guard_live, g_guard_ctor, g_val_live;
struct Guard {  // RAII probe for captured arguments and locals
    Guard() { ++g_guard_live; ++g_guard_ctor; }
    Guard(const Guard &) { ++g_guard_live; ++g_guard_ctor; }
    Guard(Guard &&) noexcept { ++g_guard_live; ++g_guard_ctor; }
    ~Guard() { --g_guard_live; }
};
struct Counted {
    long a = 0, b = 0;
    Counted() { ++g_val_live; }
    explicit Counted(long v) : a(v), b(~v) { ++g_val_live; }
    Counted(const Counted &o) : a(o.a), b(o.b) { ++g_val_live; }
    Counted(Counted &&o) noexcept : a(o.a), b(o.b) { ++g_val_live; }
    Counted &operator=(const Counted &) = default;
    ~Counted() { --g_val_live; }
};
struct MoveOnly {
    long v = -1;
    bool owns = false;
    MoveOnly() = default;
    explicit MoveOnly(long x) : v(x), owns(true) { ++g_val_live; }
    MoveOnly(MoveOnly &&o) noexcept : v(o.v), owns(o.owns) { o.owns = false; }
    MoveOnly &operator=(MoveOnly &&o) noexcept {
        if (owns) --g_val_live;
        v = o.v;
        owns = o.owns;
        o.owns = false;
        return *this;
    }
    MoveOnly(const MoveOnly &) = delete;
    ~MoveOnly() {
        if (owns) --g_val_live;
    }
};

template <typename T>
struct V;
template <>
struct V<int> {
    static int make() { return 42; }
    static long read(int &v) { return v; }
    static constexpr const char *name = "int";
};
template <>
struct V<Counted> {
    static Counted make() { return Counted(42); }
    static long read(Counted &v) { return v.b == ~v.a ? v.a : -1; }
    static constexpr const char *name = "counted";
};
static int g_ref_obj = 42;  // reference results must refer to this very object
template <>
struct V<int &> {
    static long read(int &v) { return &v == &g_ref_obj ? v : -2; }
    static constexpr const char *name = "ref";
};
template <>
struct V<MoveOnly> {
    static MoveOnly make() { return MoveOnly(42); }
    static long read(MoveOnly &v) { return v.owns ? v.v : -1; }
    static constexpr const char *name = "moveonly";
};

enum Start { DETACH = 0, DETACH_AWAITED, START, START_PROMISE, START_CLAIMED, COAWAIT, JOIN, FUTURE_CTOR, FN_RETURNS_FUTURE, FUTURE_CORO, CALL_OP, MOVED_STARTED, NEVER_STARTED, START_PROMISE_SELF, JOIN_IN_CORO, START_IN_CORO, DISCARD, NSTART };
static const char *start_names[] = {"detach", "detach_awaited", "start", "start(promise)", "start(claimed)", "co_await", "join", "future(async)", "fn->future", "future-coroutine", "operator()", "moved-then-started", "never-started", "start(promise)-future-owned-by-argument", "join-inside-coroutine", "start-inside-coroutine", "discard(fn->future)"};
enum Compl { SYNC_VALUE = 0, SYNC_THROW, SUSP_VALUE, SUSP_THROW, NCOMPL };
static const char *compl_names[] = {"sync-value", "sync-throw", "suspend-value", "suspend-throw"};

struct Ctx {
    cocls::future<void> gate;
    int runs[4] = {0, 0, 0, 0};  // body executions per level (1-based)
    int comp = 0;
};

template <typename T>
static cocls::async<T> level(Ctx &c, int k, Guard arg) {
    Guard local;
    c.runs[k]++;
    (void)arg;
    if (k > 1) {
        if constexpr (std::is_void_v<T>) {
            co_await level<T>(c, k - 1, Guard());
            co_return;
        } else {
            if constexpr (std::is_reference_v<T>) {
                T v = co_await level<T>(c, k - 1, Guard());
                co_return v;
            } else {
                T v = std::move(co_await level<T>(c, k - 1, Guard()));
                co_return std::move(v);
            }
        }
    } else {
        if (c.comp == SUSP_VALUE || c.comp == SUSP_THROW) co_await c.gate;
        if (c.comp == SYNC_THROW || c.comp == SUSP_THROW) throw TestError();
        if constexpr (std::is_void_v<T>)
            co_return;
        else if constexpr (std::is_reference_v<T>)
            co_return g_ref_obj;
        else
            co_return V<T>::make();
    }
}
// the bound future lives in an object that only the coroutine's own by-value argument keeps alive (shared_ptr<Op> self idiom)
struct Obs;
static Obs *g_self_obs;          // what the operation object found in its own future when it died
static bool g_self_died_pending;
template <typename T>
struct SelfOp {
    cocls::future<T> fut;
    ~SelfOp();
};
template <typename T>
static cocls::async<T> level_self(Ctx &c, int k, std::shared_ptr<SelfOp<T>> self, Guard arg) {
    (void)self;
    (void)arg;
    if constexpr (std::is_void_v<T>) {
        co_await level<T>(c, k, Guard());
        co_return;
    } else if constexpr (std::is_reference_v<T>) {
        T v = co_await level<T>(c, k, Guard());
        co_return v;
    } else {
        T v = std::move(co_await level<T>(c, k, Guard()));
        co_return std::move(v);
    }
}
// a coroutine whose declared return type is the future itself
template <typename T>
static cocls::future<T> level_future(Ctx &c, int k, Guard arg) {
    Guard local;
    c.runs[k]++;
    (void)arg;
    if (k > 1) {
        if constexpr (std::is_void_v<T>) {
            co_await level<T>(c, k - 1, Guard());
            co_return;
        } else {
            if constexpr (std::is_reference_v<T>) {
                T v = co_await level<T>(c, k - 1, Guard());
                co_return v;
            } else {
                T v = std::move(co_await level<T>(c, k - 1, Guard()));
                co_return std::move(v);
            }
        }
    } else {
        if (c.comp == SUSP_VALUE || c.comp == SUSP_THROW) co_await c.gate;
        if (c.comp == SYNC_THROW || c.comp == SUSP_THROW) throw TestError();
        if constexpr (std::is_void_v<T>)
            co_return;
        else if constexpr (std::is_reference_v<T>)
            co_return g_ref_obj;
        else
            co_return V<T>::make();
    }
}
template <typename T>
static cocls::future<T> fn_returning_future(Ctx &c, int k) {
    return level<T>(c, k, Guard());
}

struct Obs {
    int kind = 0;  // 0 nothing, 1 value, 2 TestError, 3 cancelled/no-value, 4 other
    long val = 0;
};
template <typename T>
static Obs observe(cocls::future<T> &f) {
    Obs o;
    if (!f.ready()) return o;
    try {
        if constexpr (std::is_void_v<T>) {
            f.value();
            o.kind = 1;
        } else {
            o.kind = 1;
            o.val = V<T>::read(f.value());
        }
    } catch (const TestError &) {
        o.kind = 2;
    } catch (const cocls::await_canceled_exception &) {
        o.kind = 3;
    } catch (...) {
        o.kind = 4;
    }
    return o;
}
template <typename T>
SelfOp<T>::~SelfOp() {
    // the object goes away together with the coroutine frame (its last owner is an argument of the coroutine): by then
    // the result must have been delivered into it
    if (fut.pending()) {
        g_self_died_pending = true;
        fut.get_promise();  // unreachable in a correct run; keeps ~future from asserting on the way out
        return;
    }
    if (g_self_obs) *g_self_obs = observe(fut);
}
// start modes used from inside a running coroutine with a consumer that does not suspend: legal when the child completes
// synchronously (the future is ready when start() returns)
template <typename T>
static cocls::async<void> outer_join_inside(Ctx &c, int depth, Obs &o, bool use_start) {
    try {
        if (use_start) {
            cocls::future<T> f = level<T>(c, depth, Guard()).start();
            if (!f.ready()) {
                o.kind = 8;  // not ready although the child ran to completion inside start()
                co_return;
            }
            if constexpr (std::is_void_v<T>) {
                f.value();
                o.kind = 1;
            } else {
                o.kind = 1;
                o.val = V<T>::read(f.value());
            }
        } else if constexpr (std::is_void_v<T>) {
            level<T>(c, depth, Guard()).join();
            o.kind = 1;
        } else if constexpr (std::is_reference_v<T>) {
            int v = level<T>(c, depth, Guard()).join();
            o.kind = 1;
            o.val = v;
        } else {
            T v = level<T>(c, depth, Guard()).join();
            o.kind = 1;
            o.val = V<T>::read(v);
        }
    } catch (const TestError &) {
        o.kind = 2;
    }
}
// outer coroutines used by the "from a coroutine" start modes
template <typename T>
static cocls::async<void> outer_coawait(Ctx &c, int depth, Obs &o) {
    try {
        if constexpr (std::is_void_v<T>) {
            co_await level<T>(c, depth, Guard());
            o.kind = 1;
        } else {
            if constexpr (std::is_reference_v<T>) {
                T v = co_await level<T>(c, depth, Guard());
                o.kind = 1;
                o.val = V<T>::read(v);
            } else {
                T v = std::move(co_await level<T>(c, depth, Guard()));
                o.kind = 1;
                o.val = V<T>::read(v);
            }
        }
    } catch (const TestError &) {
        o.kind = 2;
    } catch (const cocls::await_canceled_exception &) {
        o.kind = 3;
    }
}
template <typename T>
static cocls::async<void> outer_detach_awaited(Ctx &c, int depth, int &after) {
    co_await level<T>(c, depth, Guard()).detach();  // transfers execution to the detached coroutine first
    after = 1;
}

template <typename T>
static void run_cell(seqx::Runner &R, int start, int comp, int depth) {
    std::ostringstream d;
    d << "type=" << (std::is_void_v<T> ? "void" : V<std::conditional_t<std::is_void_v<T>, int, T>>::name) << ";start=" << start_names[start] << ";completion=" << compl_names[comp]
      << ";depth=" << depth;
    R.begin(d.str());
    int64_t base = seqx::live_allocs();
    g_guard_live = g_guard_ctor = g_val_live = 0;
    bool susp = comp == SUSP_VALUE || comp == SUSP_THROW;
    bool started = start != NEVER_STARTED && start != START_CLAIMED;
    {
        Ctx c;
        c.comp = comp;
        cocls::promise<void> gate_p = c.gate.get_promise();
        std::unique_ptr<cocls::future<T>> f;
        Obs got;           // what the bound party observed
        bool have_party = false;
        int after = 0;
        bool start_ret = true;
        switch (start) {
            case DETACH: level<T>(c, depth, Guard()).detach(); break;
            case DETACH_AWAITED: outer_detach_awaited<T>(c, depth, after).detach(); break;
            case START: f.reset(new cocls::future<T>(level<T>(c, depth, Guard()).start())); break;
            case START_PROMISE: {
                f.reset(new cocls::future<T>());
                cocls::promise<T> p = f->get_promise();
                start_ret = level<T>(c, depth, Guard()).start(p);
                break;
            }
            case START_CLAIMED: {
                f.reset(new cocls::future<T>());
                cocls::promise<T> p = f->get_promise();
                cocls::promise<T> thief(std::move(p));  // p is now claimed / empty
                {
                    auto co = level<T>(c, depth, Guard());
                    start_ret = co.start(p);
                    // the coroutine object is still startable/destroyable: destroy it unstarted
                }
                thief(cocls::drop);
                break;
            }
            case COAWAIT: outer_coawait<T>(c, depth, got).detach(); have_party = true; break;
            case JOIN:
                have_party = true;
                try {
                    if constexpr (std::is_void_v<T>) {
                        level<T>(c, depth, Guard()).join();
                        got.kind = 1;
                    } else {
                        if constexpr (std::is_reference_v<T>) {
                            // join() returns the referred value (by value for a reference result): identity is checked by the other modes
                            int v = level<T>(c, depth, Guard()).join();
                            got.kind = 1;
                            got.val = v;
                        } else {
                            T v = level<T>(c, depth, Guard()).join();
                            got.kind = 1;
                            got.val = V<T>::read(v);
                        }
                    }
                } catch (const TestError &) {
                    got.kind = 2;
                }
                break;
            case START_PROMISE_SELF: {
                auto op = std::make_shared<SelfOp<T>>();
                cocls::promise<T> p = op->fut.get_promise();
                g_self_obs = &got;
                g_self_died_pending = false;
                have_party = true;
                start_ret = level_self<T>(c, depth, std::move(op), Guard()).start(p);
                break;  // the caller keeps no reference: the coroutine's argument is the last owner
            }
            case JOIN_IN_CORO:
            case START_IN_CORO:
                outer_join_inside<T>(c, depth, got, start == START_IN_CORO).detach();
                have_party = true;
                break;
            case DISCARD:
                // cocls::discard: the bound party is a heap awaiter that deletes itself when the coroutine completes
                cocls::discard([&] { return cocls::future<T>(level<T>(c, depth, Guard())); });
                break;
            case FUTURE_CTOR: f.reset(new cocls::future<T>(level<T>(c, depth, Guard()))); break;
            case FN_RETURNS_FUTURE: f.reset(new cocls::future<T>(fn_returning_future<T>(c, depth))); break;
            case FUTURE_CORO: f.reset(new cocls::future<T>(level_future<T>(c, depth, Guard()))); break;
            case CALL_OP: f.reset(new cocls::future<T>(level<T>(c, depth, Guard())())); break;
            case MOVED_STARTED: {
                auto a = level<T>(c, depth, Guard());
                auto b = std::move(a);
                f.reset(new cocls::future<T>(b.start()));
                break;
            }
            case NEVER_STARTED: {
                auto a = level<T>(c, depth, Guard());
                (void)a;
                break;
            }
        }
        R.step();
        if (susp && started) {
            // the chain is parked on the gate: nothing may have been delivered yet
            if (f && start != START_CLAIMED && f->ready()) R.fail("async/delivered-before-completion", "future ready while the coroutine is still suspended");
            if (have_party && got.kind != 0) R.fail("async/delivered-before-completion", "awaiting party resumed while the coroutine is still suspended");
            if (c.runs[1] != 1) R.fail("async/body-count", "innermost body ran %d times before suspension", c.runs[1]);
            gate_p();
            R.step();
        } else
            gate_p();
        if (start == START_PROMISE_SELF) {
            g_self_obs = nullptr;
            if (g_self_died_pending) R.fail("async/bound-future-destroyed-pending", "the operation object owned by the coroutine's argument died while its bound future was still pending");
        }
        int expect_kind = (comp == SYNC_VALUE || comp == SUSP_VALUE) ? 1 : 2;
        long expect_val = (expect_kind == 1 && !std::is_void_v<T>) ? 42 : 0;
        for (int k = 1; k <= 3; k++) {
            int want = (started && k <= depth) ? 1 : 0;
            if (c.runs[k] != want) R.fail("async/body-count", "body of level %d executed %d times, expected %d", k, c.runs[k], want);
        }
        if (start == START_CLAIMED) {
            if (start_ret) R.fail("async/start-claimed-returned-true", "start(promise) on a claimed promise reported success");
            Obs o = observe(*f);
            if (o.kind != 3) R.fail("async/claimed-promise-result", "future of the claimed promise ended in state %d, expected the thief's drop", o.kind);
        } else if (f) {
            if (!start_ret) R.fail("async/start-returned-false", "start(promise) with a fresh promise reported failure");
            Obs o = observe(*f);
            Obs again = observe(*f);  // the delivered result stays what it is, however often the bound party looks
            if (again.kind != o.kind || again.val != o.val) R.fail("async/result-changed", "second read of the bound future gave kind=%d val=%ld after kind=%d val=%ld", again.kind, again.val, o.kind, o.val);
            if (o.kind != expect_kind || o.val != expect_val)
                R.fail("async/wrong-delivery", "bound future holds kind=%d val=%ld, expected kind=%d val=%ld", o.kind, o.val, expect_kind, expect_val);
        } else if (have_party) {
            if (got.kind != expect_kind || got.val != expect_val)
                R.fail("async/wrong-delivery", "bound party observed kind=%d val=%ld, expected kind=%d val=%ld", got.kind, got.val, expect_kind, expect_val);
        }
        if (start == DETACH_AWAITED && after != 1) R.fail("async/awaiting-coroutine-lost", "the coroutine that awaited detach() was not resumed");
        f.reset();
        R.outcome(seqx::mix((uint64_t)expect_kind, (uint64_t)start * 16 + (uint64_t)depth));
    }
    if (g_guard_live != 0) R.fail("async/raii-balance", "%ld argument/local guards still alive (constructed %ld)", g_guard_live, g_guard_ctor);
    if (g_val_live != 0) R.fail("async/value-lifetime", "%ld result values still alive", g_val_live);
    if (!R.case_fail && seqx::live_allocs() != base) R.fail("async/frame-balance", "%ld allocations not released (frame leaked?)", (long)(seqx::live_allocs() - base));
    if (cocls::coro_queue::is_active()) {
        R.fail("async/queue-left-active", "coro_queue active after return to normal code");
        seq_reset_thread_state();
    }
    R.state(seqx::hash_str(d.str()));
    R.end(true);
}

template <typename T>
static void cells(seqx::Runner &R, int only_start = -1, int only_comp = -1, int only_depth = -1) {
    for (int st = 0; st < NSTART; st++)
        for (int cm = 0; cm < NCOMPL; cm++)
            for (int depth = 1; depth <= 3; depth++) {
                if (only_start >= 0 && (st != only_start || cm != only_comp || depth != only_depth)) continue;
                // join() blocks the thread: with a suspended chain only another thread can complete it (vrt cell)
                if ((st == JOIN || st == JOIN_IN_CORO || st == START_IN_CORO) && (cm == SUSP_VALUE || cm == SUSP_THROW)) continue;
                if (R.stop()) return;
                if (R.next_case()) run_cell<T>(R, st, cm, depth);
            }
}

// ---------------------------------------------------------------------------------------------- reference result -> value future
// "future<T&> can be used to construct future<T>": an async<int&> bound to a future<int> by construction, by a function
// returning it, or by operator<<. The value future must hold the referred value.
static cocls::future<int> fn_ref_as_value(Ctx &c, int k) { return level<int &>(c, k, Guard()); }
static const char *rv_names[] = {"future<T>(async<T&>)", "fn->future<T>", "future<T><<async<T&>"};
static void run_refvalue_cell(seqx::Runner &R, int how, int comp, int depth) {
    std::ostringstream d;
    d << "refvalue;how=" << how << ":" << rv_names[how] << ";completion=" << compl_names[comp] << ";depth=" << depth;
    R.begin(d.str());
    int64_t base = seqx::live_allocs();
    g_guard_live = g_guard_ctor = g_val_live = 0;
    bool susp = comp == SUSP_VALUE || comp == SUSP_THROW;
    {
        Ctx c;
        c.comp = comp;
        cocls::promise<void> gate_p = c.gate.get_promise();
        std::unique_ptr<cocls::future<int>> f;
        switch (how) {
            case 0: f.reset(new cocls::future<int>(level<int &>(c, depth, Guard()))); break;
            case 1: f.reset(new cocls::future<int>(fn_ref_as_value(c, depth))); break;
            default:
                f.reset(new cocls::future<int>());
                *f << level<int &>(c, depth, Guard());
                break;
        }
        R.step();
        if (susp) {
            if (f->ready()) R.fail("async/delivered-before-completion", "value future ready while the coroutine is still suspended");
            gate_p();
            R.step();
        } else
            gate_p();
        for (int k = 1; k <= 3; k++)
            if (c.runs[k] != (k <= depth ? 1 : 0)) R.fail("async/body-count", "body of level %d executed %d times", k, c.runs[k]);
        int expect_kind = (comp == SYNC_VALUE || comp == SUSP_VALUE) ? 1 : 2;
        Obs o = observe(*f);
        if (o.kind != expect_kind || (expect_kind == 1 && o.val != 42))
            R.fail("async/wrong-delivery", "value future bound to a reference coroutine holds kind=%d val=%ld, expected kind=%d val=42", o.kind, o.val, expect_kind);
        f.reset();
        R.outcome(seqx::mix((uint64_t)expect_kind, (uint64_t)how * 16 + (uint64_t)depth));
    }
    if (g_guard_live != 0) R.fail("async/raii-balance", "%ld argument/local guards still alive (constructed %ld)", g_guard_live, g_guard_ctor);
    if (!R.case_fail && seqx::live_allocs() != base) R.fail("async/frame-balance", "%ld allocations not released (frame leaked?)", (long)(seqx::live_allocs() - base));
    R.state(seqx::hash_str(d.str()));
    R.end(true);
}
// result type whose constructors tell parentheses from braces: the value is built from the co_return operand the way
// T(operand) builds it (three elements), in every way of binding the result
static cocls::async<std::vector<int>> three_elements(int &runs) {
    runs++;
    co_return 3;
}
static void run_ctor_cell(seqx::Runner &R, int how) {
    static const char *names[] = {"join", "start().wait", "start(promise)", "future(async)"};
    std::string d = std::string("ctor-form;how=") + std::to_string(how) + ":" + names[how];
    R.begin(d);
    int64_t base = seqx::live_allocs();
    {
        int runs = 0;
        std::vector<int> got;
        switch (how) {
            case 0: got = three_elements(runs).join(); break;
            case 1: {
                cocls::future<std::vector<int>> f = three_elements(runs).start();
                got = f.wait();
                break;
            }
            case 2: {
                cocls::future<std::vector<int>> f;
                cocls::promise<std::vector<int>> p = f.get_promise();
                three_elements(runs).start(p);
                got = f.wait();
                break;
            }
            default: {
                cocls::future<std::vector<int>> f(three_elements(runs));
                got = f.wait();
                break;
            }
        }
        if (runs != 1) R.fail("async/body-count", "body ran %d times", runs);
        if (got.size() != 3 || got[0] != 0) R.fail("async/wrong-delivery", "co_return 3 for a vector<int> result delivered a vector of %zu elements (first %d); std::vector<int>(3) has three zeroes", got.size(), got.empty() ? -1 : got[0]);
        R.outcome((uint64_t)got.size());
        R.state(seqx::hash_str(d));
    }
    if (!R.case_fail && seqx::live_allocs() != base) R.fail("async/frame-balance", "%ld allocations not released", (long)(seqx::live_allocs() - base));
    R.end(true);
}

// co_return of an lvalue that outlives the coroutine (a data member, an object reached through a reference): the result is a
// copy; the named object keeps its value, so a second run of the same coroutine delivers the same result
struct Keeper {
    std::vector<int> data{4, 5, 6};
    cocls::async<std::vector<int>> get(int &runs) {
        runs++;
        co_return data;
    }
};
static void run_lvalue_return_cell(seqx::Runner &R, int how) {
    static const char *names[] = {"join", "start().wait", "start(promise)", "future(async)"};
    std::string d = std::string("co_return-lvalue;how=") + std::to_string(how) + ":" + names[how];
    R.begin(d);
    int64_t base = seqx::live_allocs();
    {
        int runs = 0;
        Keeper k;
        for (int round = 0; round < 2 && !R.case_fail; round++) {
            std::vector<int> got;
            switch (how) {
                case 0: got = k.get(runs).join(); break;
                case 1: {
                    cocls::future<std::vector<int>> f = k.get(runs).start();
                    got = f.wait();
                    break;
                }
                case 2: {
                    cocls::future<std::vector<int>> f;
                    cocls::promise<std::vector<int>> p = f.get_promise();
                    k.get(runs).start(p);
                    got = f.wait();
                    break;
                }
                default: {
                    cocls::future<std::vector<int>> f(k.get(runs));
                    got = f.wait();
                    break;
                }
            }
            if (got != std::vector<int>{4, 5, 6}) R.fail("async/wrong-delivery", "run %d of a coroutine that co_returns a data member delivered %zu element(s), the member holds three", round, got.size());
            if (k.data != std::vector<int>{4, 5, 6}) R.fail("async/co_return-consumed-its-operand", "after run %d the object named by co_return holds %zu element(s): it was moved from, not copied", round, k.data.size());
            R.step();
        }
        if (runs != 2) R.fail("async/body-count", "body ran %d times in two runs", runs);
        R.outcome(1);
        R.state(seqx::hash_str(d));
    }
    if (!R.case_fail && seqx::live_allocs() != base) R.fail("async/frame-balance", "%ld allocations not released", (long)(seqx::live_allocs() - base));
    R.end(true);
}

static void refvalue_cells(seqx::Runner &R, int only_how = -1, int only_comp = -1, int only_depth = -1) {
    for (int how = 0; how < 3; how++)
        for (int cm = 0; cm < NCOMPL; cm++)
            for (int depth = 1; depth <= 3; depth++) {
                if (only_how >= 0 && (how != only_how || cm != only_comp || depth != only_depth)) continue;
                if (R.stop()) return;
                if (R.next_case()) run_refvalue_cell(R, how, cm, depth);
            }
}

}  // namespace

void seqx_run(seqx::Runner &R, const std::string &) {
    seq_warmup();
    cells<int>(R);
    cells<void>(R);
    cells<MoveOnly>(R);
    cells<Counted>(R);
    cells<int &>(R);
    refvalue_cells(R);
    for (int how = 0; how < 4; how++)
        if (R.next_case()) run_ctor_cell(R, how);
    for (int how = 0; how < 4; how++)
        if (R.next_case()) run_lvalue_return_cell(R, how);
}

void seqx_replay(seqx::Runner &R, const std::string &c) {
    seq_warmup();
    if (c.rfind("co_return-lvalue;", 0) == 0) {
        R.next_case();
        run_lvalue_return_cell(R, atoi(c.c_str() + c.find("how=") + 4));
        return;
    }
    if (c.rfind("ctor-form;", 0) == 0) {
        R.next_case();
        run_ctor_cell(R, atoi(c.c_str() + c.find("how=") + 4));
        return;
    }
    int st = 0, cm = 0, depth = 1;
    // the longest matching name wins (some names are prefixes of others)
    size_t best = 0;
    for (int i = 0; i < NSTART; i++) {
        std::string key = std::string("start=") + start_names[i] + ";";
        if (c.find(key) != std::string::npos && key.size() > best) {
            best = key.size();
            st = i;
        }
    }
    for (int i = 0; i < NCOMPL; i++)
        if (c.find(std::string("completion=") + compl_names[i] + ";") != std::string::npos) cm = i;
    depth = atoi(c.c_str() + c.find("depth=") + 6);
    if (c.rfind("refvalue;", 0) == 0) {
        refvalue_cells(R, atoi(c.c_str() + c.find("how=") + 4), cm, depth);
        return;
    }
    if (c.find("type=int") != std::string::npos)
        cells<int>(R, st, cm, depth);
    else if (c.find("type=void") != std::string::npos)
        cells<void>(R, st, cm, depth);
    else if (c.find("type=ref") != std::string::npos)
        cells<int &>(R, st, cm, depth);
    else if (c.find("type=moveonly") != std::string::npos)
        cells<MoveOnly>(R, st, cm, depth);
    else
        cells<Counted>(R, st, cm, depth);
}

SEQX_MAIN()
