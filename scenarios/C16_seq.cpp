// C16 (sequential part) - publisher / subscriber: every history over publish (single, batch), subscribe (recent, at position,
// by copy), next (awaited - may park, polled), kick, leave, close for queue configurations (min,max) and the three modes.
// Values are their own positions (the i-th published value is i), so a delivered value identifies the position read.
#include <cocls/future.h>
#include <cocls/async.h>
#include <cocls/publisher.h>

#include <memory>
#include <sstream>

#include "../engine/seqx/seqx.h"
#include "common_seq.h"
#include <iterator>

namespace {

enum Op { PUB = 0, BATCH2, SUBR, SUBAT, COPY, CLOSE, AWAIT0, AWAIT1, READY0, READY1, KICK0, KICK1, LEAVE0, LEAVE1, BATCH0, NOPS };
// input iterator whose copies share one cursor (like std::istream_iterator): the range can be walked exactly once
struct SinglePass {
    using iterator_category = std::input_iterator_tag;
    using value_type = int;
    using difference_type = std::ptrdiff_t;
    using pointer = const int *;
    using reference = const int &;
    struct Src {
        const int *p, *e;
    };
    Src *src = nullptr;
    int cur = 0;
    SinglePass() = default;
    explicit SinglePass(Src *s) : src(s) { read(); }
    void read() {
        if (src && src->p != src->e)
            cur = *src->p++;
        else
            src = nullptr;
    }
    reference operator*() const { return cur; }
    SinglePass &operator++() {
        read();
        return *this;
    }
    SinglePass operator++(int) {
        SinglePass t = *this;
        read();
        return t;
    }
    bool operator==(const SinglePass &o) const { return src == o.src; }
    bool operator!=(const SinglePass &o) const { return src != o.src; }
};

static const char *op_names[] = {"pub", "batch2", "sub_recent", "sub_at", "copy0", "close", "await0", "await1", "ready0", "ready1", "kick0", "kick1", "leave0", "leave1", "batch0"};
static const char *mode_names[] = {"all_values", "skip_if_behind", "skip_to_recent"};
constexpr long UNLIM = 1000000;

struct Cfg {
    long minq, maxq;
    int mode;
};
struct MSub {
    bool alive = false, kicked = false, eos = false, parked = false;
    long c = 0;
};
struct Model {
    Cfg cfg;
    long n = 0;
    bool closed = false;
    MSub s[2];
    bool enabled(int op) const {
        auto usable = [&](int k) { return s[k].alive && !s[k].parked && !s[k].eos; };
        switch (op) {
            case PUB:
            case BATCH2: return !closed && n < 7;
            case BATCH0: return !closed && (s[0].parked || s[1].parked);  // publishing an empty range: nothing happens, nobody wakes
            case SUBR:
            case SUBAT: return !s[0].alive || !s[1].alive;
            case COPY: return usable(0) && !s[0].kicked && !s[1].alive;
            case CLOSE: return !closed;
            case AWAIT0:
            case READY0: return usable(0);
            case AWAIT1:
            case READY1: return usable(1);
            case KICK0: return s[0].alive && !s[0].kicked && !s[0].eos;
            case KICK1: return s[1].alive && !s[1].kicked && !s[1].eos;
            case LEAVE0: return s[0].alive && !s[0].parked;
            case LEAVE1: return s[1].alive && !s[1].parked;
        }
        return false;
    }
    // model-only transition used by the enumerator to know which ops are enabled; parking is decided here too
    void apply(int op) {
        auto next_like = [&](int k, bool can_park) {
            MSub &x = s[k];
            bool pending = !x.kicked && !closed && x.c == n;
            if (pending) {
                if (can_park) x.parked = true;
                return;
            }
            // some delivery or EOS happens; the exact cursor is fixed by the real run, the enumerator only needs flags:
            if (x.kicked || (closed && x.c == n) || (cfg.mode == 0 && n - x.c > cfg.maxq))
                x.eos = true;
            else if (cfg.mode == 0)
                x.c++;
            else if (cfg.mode == 2)
                x.c = n;
            else
                x.c = std::max(x.c + 1, n - cfg.maxq + 1 > x.c + 1 ? x.c + 1 : x.c + 1);  // any in (c,n]; enumerator assumes c+1 (real run re-syncs)
        };
        auto wake_all = [&](bool closing) {
            for (auto &x : s)
                if (x.alive && x.parked) {
                    x.parked = false;
                    if (closing)
                        x.eos = true;
                    else if (cfg.mode == 2)
                        x.c = n;
                    else
                        x.c++;
                }
        };
        int slot = !s[0].alive ? 0 : 1;
        switch (op) {
            case PUB: n++; wake_all(false); break;
            case BATCH2: n += 2; wake_all(false); break;
            case SUBR: s[slot] = MSub{true, false, false, false, n}; break;
            case SUBAT: s[slot] = MSub{true, false, false, false, std::max<long>(0, n - cfg.minq)}; break;
            case COPY: s[1] = MSub{true, false, false, false, s[0].c}; break;
            case CLOSE: closed = true; wake_all(true); break;
            case AWAIT0: next_like(0, true); break;
            case AWAIT1: next_like(1, true); break;
            case READY0: next_like(0, false); break;
            case READY1: next_like(1, false); break;
            case KICK0:
                s[0].kicked = true;
                if (s[0].parked) {
                    s[0].parked = false;
                    s[0].eos = true;
                }
                break;
            case KICK1:
                s[1].kicked = true;
                if (s[1].parked) {
                    s[1].parked = false;
                    s[1].eos = true;
                }
                break;
            case LEAVE0: s[0] = MSub{}; break;
            case LEAVE1: s[1] = MSub{}; break;
            case BATCH0: break;  // nothing published: state unchanged
        }
    }
};

struct Res {
    bool started = false, done = false, result = false;
    int value = 0;
};
static cocls::async<void> await_next(cocls::subscriber<int> &s, Res &r) {
    r.started = true;
    bool b = co_await s.next();
    r.result = b;
    if (b) r.value = s.value();
    r.done = true;
}

static std::string describe(const Cfg &c, const std::vector<int> &seq) {
    std::ostringstream o;
    o << "min=" << c.minq << ";max=" << c.maxq << ";mode=" << mode_names[c.mode] << ";ops=";
    for (size_t i = 0; i < seq.size(); i++) o << (i ? "," : "") << op_names[seq[i]];
    return o.str();
}

static void run_case(seqx::Runner &R, const Cfg &cfg, const std::vector<int> &seq) {
    R.begin(describe(cfg, seq));
    int64_t base = seqx::live_allocs();
    {
        // the concrete run keeps its own exact model (cursor follows the values actually delivered)
        long n = 0;
        bool closed = false;
        MSub ms[2];
        Res res[2];
        std::unique_ptr<cocls::publisher<int>> pub;
        if (cfg.maxq >= UNLIM)
            pub.reset(new cocls::publisher<int>());
        else
            pub.reset(new cocls::publisher<int>((std::size_t)cfg.maxq, (std::size_t)cfg.minq));
        // fixed storage: a subscriber created again in the same place has the same address as its predecessor (like a local
        // variable of a function called repeatedly); the publisher keys its registration table by that address
        struct SubStore {
            std::optional<cocls::subscriber<int>> s[2][2];  // two places per subscriber: a kick relocates it to the other one
        };
        std::unique_ptr<SubStore> store(new SubStore);
        bool leak_store = false;
        int cur[2] = {0, 0};
#define SUB(k) (store->s[k][cur[k]])
        auto stype = cfg.mode == 0 ? cocls::subscribtion_type::all_values : cfg.mode == 1 ? cocls::subscribtion_type::skip_if_behind : cocls::subscribtion_type::skip_to_recent;
        bool ok = true;
        size_t step = 0;
        // judge one completed next(): b = result, v = value
        auto deliver = [&](int k, bool b, long v, const char *how) {
            MSub &x = ms[k];
            if (x.eos) return;
            if (b) {
                bool good;
                if (cfg.mode == 0)
                    good = v == x.c + 1;
                else if (cfg.mode == 1)
                    good = v > x.c && v <= n;
                else
                    good = v == n && v > x.c;
                if (!good) {
                    const char *sig = v <= x.c ? "pub/duplicate-or-backwards" : cfg.mode == 0 ? "pub/gap" : "pub/not-newest";
                    R.fail(sig, "step %zu (%s): subscriber %d (%s, last delivered position %ld, %ld published) received value %ld", step, how, k,
                           mode_names[cfg.mode], x.c, n, v);
                    ok = false;
                    return;
                }
                x.c = v;
            } else {
                bool allowed = x.kicked || (closed && x.c == n) || (cfg.mode == 0 && n - x.c > cfg.maxq);
                if (!allowed) {
                    R.fail("pub/unexpected-end-of-stream", "step %zu (%s): subscriber %d (%s, last delivered %ld, %ld published, closed=%d, max=%ld) got end-of-stream", step,
                           how, k, mode_names[cfg.mode], x.c, n, (int)closed, cfg.maxq);
                    ok = false;
                    return;
                }
                x.eos = true;
            }
        };
        auto check_woken = [&](const char *how, int only) {
            for (int k = 0; k < 2; k++) {
                if (!ms[k].alive || !ms[k].parked) continue;
                if (only >= 0 && k != only) continue;
                if (!res[k].done) {
                    R.fail("pub/parked-subscriber-not-woken", "step %zu (%s): subscriber %d stayed suspended", step, how, k);
                    ok = false;
                    continue;
                }
                ms[k].parked = false;
                deliver(k, res[k].result, res[k].value, how);
            }
        };
        for (step = 0; step < seq.size() && ok; step++) {
            int op = seq[step];
            {
                // the enumerator's model only approximates cursors in the skipping modes: re-validate against the exact state
                Model chk;
                chk.cfg = cfg;
                chk.n = n;
                chk.closed = closed;
                chk.s[0] = ms[0];
                chk.s[1] = ms[1];
                if (!chk.enabled(op)) break;
            }
            R.step();
            int slot = !ms[0].alive ? 0 : 1;
            switch (op) {
                case PUB:
                    n++;
                    pub->publish((int)n);
                    check_woken("publish", -1);
                    break;
                case BATCH2: {
                    int vals[2] = {(int)n + 1, (int)n + 2};
                    n += 2;
                    if (vals[0] % 2 == 0) {
                        // every other batch comes as a single-pass range (what std::istream_iterator or a generator's iterator is)
                        SinglePass::Src src{&vals[0], &vals[2]};
                        pub->publish(SinglePass(&src), SinglePass());
                    } else
                        pub->publish(&vals[0], &vals[2]);
                    check_woken("publish batch", -1);
                    break;
                }
                case BATCH0: {
                    int none[1] = {0};
                    pub->publish(&none[0], &none[0]);
                    for (int k = 0; k < 2; k++)
                        if (ms[k].alive && ms[k].parked && res[k].done) {
                            R.fail("pub/woken-without-data", "step %zu: publishing an empty range resumed subscriber %d (result %d, value %d) although nothing was published and the stream is open", step,
                                   k, (int)res[k].result, res[k].value);
                            ok = false;
                        }
                    break;
                }
                case SUBR:
                    SUB(slot).emplace(*pub, stype);
                    ms[slot] = MSub{true, false, false, false, n};
                    break;
                case SUBAT: {
                    long p = std::max<long>(0, n - cfg.minq);
                    SUB(slot).emplace(*pub, (std::size_t)p, stype);
                    ms[slot] = MSub{true, false, false, false, p};
                    break;
                }
                case COPY:
                    SUB(1).emplace(*SUB(0));
                    ms[1] = MSub{true, false, false, false, ms[0].c};
                    break;
                case CLOSE:
                    closed = true;
                    pub->close();
                    check_woken("close", -1);
                    break;
                case AWAIT0:
                case AWAIT1: {
                    int k = op - AWAIT0;
                    res[k] = Res{};
                    bool expect_park = !ms[k].kicked && !closed && ms[k].c == n;
                    await_next(*SUB(k), res[k]).detach();
                    if (!res[k].done) {
                        if (!expect_park) {
                            R.fail("pub/suspended-with-data-available", "step %zu: subscriber %d suspended although position %ld < %ld published (closed=%d kicked=%d)", step, k,
                                   ms[k].c, n, (int)closed, (int)ms[k].kicked);
                            ok = false;
                        }
                        ms[k].parked = true;
                    } else
                        deliver(k, res[k].result, res[k].value, "co_await next()");
                    break;
                }
                case READY0:
                case READY1: {
                    int k = op - READY0;
                    bool b = SUB(k)->next_ready();
                    if (b)
                        deliver(k, true, SUB(k)->value(), "next_ready()");
                    else {
                        MSub &x = ms[k];
                        bool terminal = x.kicked || (closed && x.c == n) || (cfg.mode == 0 && n - x.c > cfg.maxq);
                        if (terminal)
                            x.eos = true;  // equivalent of end-of-stream: nothing is checked afterwards
                        else if (x.c != n) {
                            R.fail("pub/next_ready-false-with-data", "step %zu: subscriber %d next_ready()==false with last delivered %ld and %ld published", step, k, x.c, n);
                            ok = false;
                        }
                    }
                    break;
                }
                case KICK0:
                case KICK1: {
                    int k = op - KICK0;
                    ms[k].kicked = true;
                    if (!ms[k].parked) {
                        // the subscriber object is relocated first, as a container that grows would do it (move-construct at the
                        // new place, destroy the old one), and is kicked - and used from then on - at its new address
                        int other = cur[k] ^ 1;
                        store->s[k][other].emplace(std::move(*SUB(k)));
                        SUB(k).reset();
                        cur[k] = other;
                    }
                    if (k == 0)
                        pub->kick(&*SUB(0));
                    else
                        SUB(1)->kick_me();
                    check_woken("kick", k);
                    break;
                }
                case LEAVE0:
                case LEAVE1: {
                    int k = op - LEAVE0;
                    SUB(k).reset();
                    ms[k] = MSub{};
                    break;
                }
            }
            uint64_t key = seqx::mix((uint64_t)cfg.mode * 100 + (uint64_t)cfg.minq * 10 + (uint64_t)std::min<long>(cfg.maxq, 9), closed);
            for (auto &x : ms) key = seqx::mix(key, x.alive ? (uint64_t)(n - x.c) * 16 + x.kicked * 8 + x.eos * 4 + x.parked * 2 + 1 : 0);
            R.state(key);
        }
        // teardown: destroying the publisher closes the stream and must wake every parked subscriber
        closed = true;
        pub.reset();
        for (int k = 0; k < 2; k++)
            if (ms[k].alive && ms[k].parked) {
                if (!res[k].done) {
                    if (ok) R.fail("pub/parked-subscriber-not-woken", "destroying the publisher left subscriber %d suspended", k);
                    leak_store = true;  // cannot be destroyed safely
                } else if (ok) {
                    ms[k].parked = false;
                    step = seq.size();
                    deliver(k, res[k].result, res[k].value, "publisher destroyed");
                }
            }
        if (leak_store)
            (void)store.release();
        else {
            SUB(0).reset();
            SUB(1).reset();
        }
        R.outcome(seqx::mix((uint64_t)n, (uint64_t)ms[0].c * 8 + (uint64_t)ms[1].c));
    }
    if (!R.case_fail && seqx::live_allocs() != base) R.fail("pub/allocation-balance", "%ld allocations not released", (long)(seqx::live_allocs() - base));
    R.end(true);
}

static void dfs(seqx::Runner &R, const Cfg &cfg, int depth, std::vector<int> &seq, const Model &m) {
    if (R.stop()) return;
    if ((int)seq.size() == depth) {
        if (R.next_case()) run_case(R, cfg, seq);
        return;
    }
    for (int op = 0; op < NOPS; op++) {
        if (!m.enabled(op)) continue;
        if (seq.empty() && !(op == PUB || op == SUBR)) continue;
        Model m2 = m;
        m2.apply(op);
        seq.push_back(op);
        dfs(R, cfg, depth, seq, m2);
        seq.pop_back();
    }
}

}  // namespace

void seqx_run(seqx::Runner &R, const std::string &tier) {
    seq_warmup();
    bool q = tier == "quick";
    std::vector<Cfg> cfgs;
    long lim = q ? 3 : 5;
    for (int mode = 0; mode < 3; mode++) {
        for (long mn = 1; mn <= lim; mn++)
            for (long mx = mn; mx <= lim; mx++) cfgs.push_back({mn, mx, mode});
        cfgs.push_back({1, UNLIM, mode});
    }
    for (auto &c : cfgs) {
        bool deep = (c.minq == 1 && (c.maxq == 1 || c.maxq == 2 || c.maxq >= UNLIM)) || (c.minq == 2 && c.maxq == 3);
        int depth = q ? (deep ? 6 : 5) : (deep ? 8 : 7);
        Model m;
        m.cfg = c;
        std::vector<int> seq;
        dfs(R, c, depth, seq, m);
    }
    // histories that do not start from the initial state: the publisher's registration table has been used, released
    // and re-used (stale entries, scrambled free list, subscriber objects at re-used addresses) before the enumeration
    // starts; every continuation of 4 (5) further operations
    static const std::vector<std::vector<int>> prefixes = {
        {SUBR, SUBR, LEAVE0, LEAVE1},
        {SUBR, SUBR, LEAVE1, LEAVE0},
        {SUBR, SUBR, LEAVE0, SUBR},
        {PUB, SUBR, SUBAT, LEAVE0},
        {SUBR, LEAVE0, PUB},
    };
    for (auto &c : cfgs) {
        bool deep = (c.minq == 1 && (c.maxq == 1 || c.maxq == 2 || c.maxq >= UNLIM)) || (c.minq == 2 && c.maxq == 3);
        if (!deep) continue;
        for (auto &pre : prefixes) {
            Model m;
            m.cfg = c;
            std::vector<int> seq;
            bool ok = true;
            for (int op : pre) {
                if (!m.enabled(op)) {
                    ok = false;
                    break;
                }
                m.apply(op);
                seq.push_back(op);
            }
            if (ok) dfs(R, c, (int)pre.size() + (q ? 4 : 5), seq, m);
        }
    }
}

void seqx_replay(seqx::Runner &R, const std::string &c) {
    seq_warmup();
    Cfg cfg{1, 1, 0};
    cfg.minq = atol(c.c_str() + c.find("min=") + 4);
    cfg.maxq = atol(c.c_str() + c.find("max=") + 4);
    for (int i = 0; i < 3; i++)
        if (c.find(std::string("mode=") + mode_names[i] + ";") != std::string::npos) cfg.mode = i;
    std::vector<int> seq;
    std::stringstream ss(c.substr(c.find("ops=") + 4));
    std::string tok;
    while (std::getline(ss, tok, ','))
        for (int i = 0; i < NOPS; i++)
            if (tok == op_names[i]) seq.push_back(i);
    R.next_case();
    run_case(R, cfg, seq);
}

SEQX_MAIN()
