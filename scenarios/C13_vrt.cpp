// C13 / C14 (threaded parts) - generators whose awaited operations are completed by another thread while the
// consumer uses the blocking access styles; aggregator with asynchronous sources and destruction while in flight.
#include "common_vrt.h"
#include <cocls/generator.h>
#include <cocls/generator_aggregator.h>
#include <memory>

namespace {
enum Style { ST_NEXT = 0, ST_CALL_WAIT, ST_RANGE, NST };
static const char *st_names[] = {"next", "callwait", "rangefor"};

struct Ctx {
    cocls::future<int> pend[2];
    cocls::promise<int> pend_p[2];
};
static cocls::generator<int> body(Ctx &c, bool throw_at_end) {
    co_yield 1;
    co_await c.pend[0];
    co_yield 2;
    co_await c.pend[1];
    co_yield 3;
    if (throw_at_end) throw TestError(1);
}
// scratch: count 0, values 1..8, end kind 9 (1 end, 2 exception)
static void got(int v) {
    int64_t *s = vrt_scratch();
    int64_t n = s[0]++;
    if (n < 8) s[1 + n] = v;
}
static void gen_scenario(int style, bool throw_at_end) {
    int64_t *s = vrt_scratch();
    {
        Ctx c;
        for (int k = 0; k < 2; k++) c.pend_p[k] = c.pend[k].get_promise();
        auto gen = std::make_unique<cocls::generator<int>>(body(c, throw_at_end));
        vstd::thread rt([&] {
            vrt_label("resolver");
            c.pend_p[0](1);
            c.pend_p[1](1);
        });
        vrt_label("consumer");
        try {
            if (style == ST_NEXT) {
                for (;;) {
                    bool more = gen->next();
                    if (!more) break;
                    got(gen->value());
                }
                s[9] = 1;
            } else if (style == ST_CALL_WAIT) {
                for (;;) {
                    cocls::future<int> f = (*gen)();
                    bool hv = f.has_value();  // blocks
                    if (!hv) break;
                    got(*f);
                }
                s[9] = 1;
            } else {
                for (int &v : *gen) got(v);
                s[9] = 1;
            }
        } catch (const TestError &) {
            s[9] = 2;
        }
        vrt_label("main");
        rt.join();
        VRT_CHECK(s[0] == 3 && s[1] == 1 && s[2] == 2 && s[3] == 3, "gen/wrong-sequence", "consumer saw %ld values: %ld %ld %ld (expected 1 2 3)", (long)s[0], (long)s[1], (long)s[2], (long)s[3]);
        VRT_CHECK(s[9] == (throw_at_end ? 2 : 1), "gen/wrong-end", "end indication %ld, expected %d", (long)s[9], throw_at_end ? 2 : 1);
        gen.reset();
        vrt_outcome("ok");
    }
}

// aggregator ---------------------------------------------------------------------------------------------------
static cocls::generator<int> asrc(cocls::future<int> &gate, int idx, int n) {
    co_await gate;
    for (int j = 1; j <= n; j++) co_yield idx * 100 + j;
}
static cocls::generator<int> ssrc(int idx, int n) {
    for (int j = 1; j <= n; j++) co_yield idx * 100 + j;
}
static void aggr_scenario(int style, int stop_after) {
    int64_t *s = vrt_scratch();
    {
        cocls::future<int> gate[2];
        cocls::promise<int> gp[2] = {gate[0].get_promise(), gate[1].get_promise()};
        std::vector<cocls::generator<int>> list;
        list.push_back(asrc(gate[0], 0, 2));
        list.push_back(asrc(gate[1], 1, 2));
        list.push_back(ssrc(2, 1));
        auto agg = std::make_unique<cocls::generator<int>>(cocls::generator_aggregator(std::move(list)));
        vstd::thread r0([&] {
            vrt_label("resolver0");
            gp[0](1);
        });
        vstd::thread r1([&] {
            vrt_label("resolver1");
            gp[1](1);
        });
        vrt_label("consumer");
        int limit = stop_after > 0 ? stop_after : 100;
        for (int i = 0; i < limit; i++) {
            if (style == ST_NEXT) {
                bool more = agg->next();
                if (!more) {
                    s[9] = 1;
                    break;
                }
                got(agg->value());
            } else {
                cocls::future<int> f = (*agg)();
                bool hv = f.has_value();
                if (!hv) {
                    s[9] = 1;
                    break;
                }
                got(*f);
            }
        }
        // destroying the aggregate while parked must wait for in-flight asynchronous sources and leak nothing
        vrt_label("consumer-destroys-aggregate");
        agg.reset();
        vrt_label("main");
        r0.join();
        r1.join();
        int last[3] = {0, 0, 0}, cnt = 0;
        for (int k = 0; k < s[0] && k < 8; k++) {
            int v = (int)s[1 + k], src = v / 100, j = v % 100;
            VRT_CHECK(src >= 0 && src <= 2 && j == last[src] + 1, "aggr/per-source-order", "value %d out of order for source %d (previous %d)", v, src, last[src]);
            last[src] = j;
            cnt++;
        }
        if (stop_after <= 0) {
            VRT_CHECK(cnt == 5 && s[9] == 1, "aggr/value-lost", "%d of 5 values delivered, end=%ld", cnt, (long)s[9]);
        } else
            VRT_CHECK(cnt == stop_after, "aggr/value-lost", "%d of %d requested values delivered", cnt, stop_after);
        vrt_outcome("n=%d first=%ld", cnt, (long)s[1]);
    }
}

// aggregator whose sources suspend again between their values: with a synchronous consumer the aggregate completes
// several steps in a row asynchronously (on the resolver's thread)
static cocls::generator<int> asrc2(cocls::future<int> &g1, cocls::future<int> &g2, int idx) {
    co_await g1;
    co_yield idx * 100 + 1;
    co_await g2;
    co_yield idx * 100 + 2;
}
static void aggr_twostep_scenario(int style, int nsrc) {
    int64_t *s = vrt_scratch();
    {
        cocls::future<int> gate[4];
        cocls::promise<int> gp[4] = {gate[0].get_promise(), gate[1].get_promise(), gate[2].get_promise(), gate[3].get_promise()};
        std::vector<cocls::generator<int>> list;
        for (int i = 0; i < nsrc; i++) list.push_back(asrc2(gate[2 * i], gate[2 * i + 1], i));
        auto agg = std::make_unique<cocls::generator<int>>(cocls::generator_aggregator(std::move(list)));
        vstd::thread rt[2];
        for (int i = 0; i < nsrc; i++)
            rt[i] = vstd::thread([&, i] {
                vrt_label(i ? "resolver1" : "resolver0");
                gp[2 * i](1);
                gp[2 * i + 1](1);
            });
        for (int i = nsrc; i < 2; i++) {
            gp[2 * i](1);  // unused gates
            gp[2 * i + 1](1);
        }
        vrt_label("consumer");
        for (;;) {
            if (style == ST_NEXT) {
                bool more = agg->next();
                if (!more) break;
                got(agg->value());
            } else {
                cocls::future<int> f = (*agg)();
                bool hv = f.has_value();
                if (!hv) break;
                got(*f);
            }
        }
        s[9] = 1;
        agg.reset();
        vrt_label("main");
        for (int i = 0; i < nsrc; i++) rt[i].join();
        int last[2] = {0, 0}, cnt = 0;
        for (int k = 0; k < s[0] && k < 8; k++) {
            int v = (int)s[1 + k], src = v / 100, j = v % 100;
            VRT_CHECK(src >= 0 && src < nsrc && j == last[src] + 1, "aggr/per-source-order", "value %d out of order for source %d (previous %d)", v, src, last[src]);
            last[src] = j;
            cnt++;
        }
        VRT_CHECK(cnt == 2 * nsrc && s[0] == cnt, "aggr/value-lost", "%d of %d values delivered (%ld accesses returned a value)", cnt, 2 * nsrc, (long)s[0]);
        vrt_outcome("n=%d first=%ld", cnt, (long)s[1]);
    }
}

VRT_REGISTER(reg_gen) {
    for (int st = 0; st < 2; st++)
        for (int n = 1; n <= 2; n++) vrt::add(std::string("aggr_twostep_") + st_names[st] + "_src" + std::to_string(n), [=] { aggr_twostep_scenario(st, n); });
    for (int st = 0; st < NST; st++)
        for (int th = 0; th < 2; th++) vrt::add(std::string("gen_") + st_names[st] + (th ? "_throw" : ""), [=] { gen_scenario(st, th != 0); });
    for (int st = 0; st < 2; st++)
        for (int stop = 0; stop <= 2; stop++) vrt::add(std::string("aggr_") + st_names[st] + (stop ? "_stop" + std::to_string(stop) : ""), [=] { aggr_scenario(st, stop); });
}
}  // namespace
int main(int argc, char **argv) { return vrt_main(argc, argv); }
