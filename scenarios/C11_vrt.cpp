// C11 - thread pool: every submission runs exactly once on a worker or is cancelled observably exactly once;
// stop() / destructor join without deadlock for every timing, including stop from one of the pool's own threads.
#include "common_vrt.h"
#include <cocls/thread_pool.h>
#include <atomic>
#include <memory>

namespace {

enum Kind { K_COAWAIT = 0, K_RUNFN, K_RUNFN_BIG, K_DETACHED, K_DETACHED_BIG, K_COAWAIT_FUT, K_RUN_ASYNC, K_RESUME_SP, K_CURRENT, K_NK };
static const char *kind_names[] = {"coawait", "runfn", "runfnbig", "detached", "detachedbig", "coawaitfut", "runasync", "resumesp", "current"};
static const char *lost_labels[] = {"lost:coawait", "lost:runfn", "lost:runfnbig", "lost:detached", "lost:detachedbig", "lost:coawait_fut", "lost:run_async", "lost:resume_sp", "lost:current"};
enum StopMode { ST_STOP = 0, ST_DTOR, ST_SELF, ST_RACE, ST_NK };
static const char *stop_names[] = {"stop", "dtor", "selfstop", "racestop"};

// scratch: ran[id], cancelled[id], tid[id], closure_dtor[id]
enum { S_RAN = 0, S_CANC = 4, S_TID = 8, S_CLOS = 12, S_STOPRET = 16 };

static void mark_ran(int id) {
    int64_t *s = vrt_scratch();
    s[S_RAN + id]++;
    s[S_TID + id] = vrt_self();
    if (s[S_RAN + id] > 1) vrt_fail("pool/ran-twice", "job %d executed %ld times", id, (long)s[S_RAN + id]);
    if (s[S_CANC + id]) vrt_fail("pool/ran-and-cancelled", "job %d executed after it had been reported cancelled", id);
}
static void mark_cancelled(int id) {
    int64_t *s = vrt_scratch();
    s[S_CANC + id]++;
    if (s[S_CANC + id] > 1) vrt_fail("pool/cancelled-twice", "job %d cancelled %ld times", id, (long)s[S_CANC + id]);
    if (s[S_RAN + id]) vrt_fail("pool/ran-and-cancelled", "job %d reported cancelled after it had executed", id);
}

struct ClosureGuard {  // counts the instances of a job closure: every one that is constructed - moved-from ones included - is destroyed
    int id;
    explicit ClosureGuard(int i) : id(i) { vrt_scratch()[S_CLOS + id]++; }
    ClosureGuard(ClosureGuard &&o) noexcept : id(o.id) { vrt_scratch()[S_CLOS + id]++; }
    ClosureGuard(const ClosureGuard &) = delete;
    ~ClosureGuard() { vrt_scratch()[S_CLOS + id]--; }
};

static cocls::async<void> job_coawait(cocls::thread_pool &pool, int id) {
    try {
        co_await pool;
        mark_ran(id);
    } catch (const cocls::await_canceled_exception &) {
        // a cancelled submission may look at the pool that refused it (retry logic does): must not dead-lock
        if (!pool.is_stopped()) vrt_fail("pool/cancelled-by-running-pool", "job %d was cancelled although the pool is not stopped", id);
        mark_cancelled(id);
    }
}
static cocls::async<void> job_coawait_fut(cocls::thread_pool &pool, cocls::future<int> &gate, int id) {
    try {
        int v = co_await pool(gate);
        if (v != 5) vrt_fail("pool/wrong-value", "co_await pool(future) returned %d", v);
        mark_ran(id);
    } catch (const cocls::await_canceled_exception &) {
        mark_cancelled(id);
    }
}
static cocls::async<void> job_current(cocls::thread_pool &pool, int id) {
    // moves to a worker, then gives way with co_await thread_pool::current(): re-submitted to the pool it runs in
    try {
        co_await pool;
        co_await cocls::thread_pool::current();
        mark_ran(id);
    } catch (const cocls::await_canceled_exception &) {
        mark_cancelled(id);
    }
}
static cocls::async<int> job_async(int id) {
    mark_ran(id);
    co_return 9;
}
static cocls::async<void> job_parked(cocls::future<int> &gate, int id) {
    // parked on a gate; the suspend point obtained when the gate is resolved is handed to pool.resume()
    int v = co_await gate;
    (void)v;
    mark_ran(id);
}

struct Big {
    char pad[120];
};

static void scenario(int nworkers, int njobs, const int *kinds, int stopmode) {
    int64_t *s = vrt_scratch();
    {
        cocls::future<int> gate[3];
        cocls::promise<int> gate_p[3];
        std::unique_ptr<cocls::future<int>> res[3];
        bool settled_by_future[3] = {false, false, false};
        bool settled_early = false;
        auto settle = [&] {
        // by now every job must be settled or about to be (a self-detached worker may still be finishing its job)
        for (int i = 0; i < njobs; i++) {
            vrt_label(lost_labels[kinds[i]]);
            if (settled_by_future[i]) {
                // the returned future reports the value or a broken promise; it must not stay pending
                while (!res[i]->ready()) vrt_yield();
                bool has = res[i]->has_value();
                if (has) {
                    if (!s[S_RAN + i]) vrt_fail("pool/value-without-run", "future of job %d has a value but the job never ran", i);
                } else
                    mark_cancelled(i);
                if (has && kinds[i] != K_RUN_ASYNC && res[i]->value() != 7) vrt_fail("pool/wrong-value", "run() future holds %d", res[i]->value());
            } else if (kinds[i] == K_DETACHED || kinds[i] == K_DETACHED_BIG) {
                // no observer: either it ran or its closure was destroyed un-run; both are visible through the guard
                while (!s[S_RAN + i] && s[S_CLOS + i] > 0) vrt_yield();
            } else {
                while (!s[S_RAN + i] && !s[S_CANC + i]) vrt_yield();
            }
            vrt_label("main");
            VRT_CHECK(s[S_RAN + i] + s[S_CANC + i] <= 1, "pool/ran-and-cancelled", "job %d: ran=%ld cancelled=%ld", i, (long)s[S_RAN + i], (long)s[S_CANC + i]);
            if (s[S_RAN + i]) VRT_CHECK(s[S_TID + i] >= 1 && s[S_TID + i] <= nworkers, "pool/ran-outside-pool", "job %d ran on thread %ld which is not a pool worker", i, (long)s[S_TID + i]);
        }
        };
        {
            auto pool = std::make_unique<cocls::thread_pool>((unsigned)nworkers);
            cocls::thread_pool &P = *pool;
            auto submit_all = [&] {
            for (int i = 0; i < njobs; i++) {
                switch (kinds[i]) {
                    case K_COAWAIT: job_coawait(P, i).detach(); break;
                    case K_CURRENT: job_current(P, i).detach(); break;
                    case K_RUNFN:
                        res[i].reset(new cocls::future<int>(P.run([i, g = ClosureGuard(i)] {
                            mark_ran(i);
                            return 7;
                        })));
                        settled_by_future[i] = true;
                        break;
                    case K_RUNFN_BIG:
                        res[i].reset(new cocls::future<int>(P.run([i, g = ClosureGuard(i), b = Big()] {
                            (void)b;
                            mark_ran(i);
                            return 7;
                        })));
                        settled_by_future[i] = true;
                        break;
                    case K_DETACHED: P.run_detached([i, g = ClosureGuard(i)] { mark_ran(i); }); break;
                    case K_DETACHED_BIG:
                        P.run_detached([i, g = ClosureGuard(i), b = Big()] {
                            (void)b;
                            mark_ran(i);
                        });
                        break;
                    case K_COAWAIT_FUT:
                        gate_p[i] = gate[i].get_promise();
                        job_coawait_fut(P, gate[i], i).detach();
                        gate_p[i](5);  // resolving resumes the awaiter, which re-submits the coroutine to the pool
                        break;
                    case K_RUN_ASYNC:
                        res[i].reset(new cocls::future<int>(P.run(job_async(i))));
                        settled_by_future[i] = true;
                        break;
                    case K_RESUME_SP: {
                        gate_p[i] = gate[i].get_promise();
                        job_parked(gate[i], i).detach();
                        cocls::suspend_point<bool> sp = gate_p[i](5);
                        P.resume(sp);
                        break;
                    }
                }
            }
            };
            vstd::thread submitter;
            if (stopmode == ST_RACE) {
                // submissions come from another thread and race with stop()
                submitter = vstd::thread([&] {
                    vrt_label("submitter");
                    submit_all();
                });
            } else
                submit_all();
            if (stopmode == ST_SELF) {
                // a job running on a worker stops the pool it runs in
                P.run_detached([&P] {
                    P.stop();
                    vrt_scratch()[S_STOPRET]++;
                });
            }
            if (stopmode == ST_SELF) {
                // destroying the pool concurrently with a stop() still running on a worker is outside the property
                vrt_label("main-wait-selfstop");
                while (!s[S_STOPRET]) vrt_yield();
            }
            if (stopmode == ST_STOP || stopmode == ST_RACE) {
                vrt_label("main-stop");
                P.stop();
                s[S_STOPRET]++;
            }
            if (stopmode == ST_RACE) {
                vrt_label("main-join-submitter");
                submitter.join();
            }
            if (stopmode == ST_STOP || stopmode == ST_RACE) {
                // stop() has returned and nobody submits any more: every submission must be settled now, not only
                // when the pool object is eventually destroyed
                settle();
                settled_early = true;
            }
            vrt_label("main-destroy-pool");
        }  // ~thread_pool
        vrt_label("main");
        if (!settled_early) settle();
        // closures must all be gone once their job is settled (wait for a detached worker still unwinding)
        for (int i = 0; i < njobs; i++) {
            vrt_label("main-wait-closures");
            while (s[S_CLOS + i] > 0) vrt_yield();
            vrt_label("main");
        }
        res[0].reset();
        res[1].reset();
        res[2].reset();
        int ran = 0, canc = 0;
        for (int i = 0; i < njobs; i++) {
            ran += (int)s[S_RAN + i];
            canc += (int)s[S_CANC + i];
        }
        vrt_outcome("ran=%d cancelled=%d", ran, canc);
    }
}

// two jobs where the first waits for the second: legal on a pool with two or more workers; a submission that does not
// wake an idle worker leaves the second job forgotten while its waiter hangs
static void dependent_scenario(int nworkers, int first_kind) {
    int64_t *s = vrt_scratch();
    {
        std::atomic<int> flag{0};
        auto pool = std::make_unique<cocls::thread_pool>((unsigned)nworkers);
        cocls::thread_pool &P = *pool;
        auto waitjob = [&flag] {
            vrt_label("job-waiting-for-second-job");
            while (!flag.load()) vrt_yield();
            mark_ran(0);
        };
        std::unique_ptr<cocls::future<void>> f;
        if (first_kind == 0)
            P.run_detached(waitjob);
        else
            f.reset(new cocls::future<void>(P.run(waitjob)));
        P.run_detached([&flag] {
            mark_ran(1);
            flag.store(1);
        });
        vrt_label("main-wait-jobs");
        while (!s[S_RAN] || !s[S_RAN + 1]) vrt_yield();
        if (f) f->sync();
        vrt_label("main");
        pool.reset();
        vrt_outcome("t0=%ld t1=%ld", (long)s[S_TID], (long)s[S_TID + 1]);
    }
}

// the destructor invoked from one of the pool's own threads: a job deletes the pool it runs in. Other workers are joined
// by that destructor, the deleting worker detaches itself and must not touch the pool object after the job returned.
static void selfdestroy_scenario(int nworkers, bool other_job) {
    int64_t *s = vrt_scratch();
    {
        auto *pool = new cocls::thread_pool((unsigned)nworkers);
        if (other_job) pool->run_detached([g = ClosureGuard(1)] { mark_ran(1); });
        pool->run_detached([pool, g = ClosureGuard(0)] {
            mark_ran(0);
            vrt_label("job-deletes-pool");
            delete pool;
            vrt_scratch()[S_STOPRET]++;
        });
        vrt_label("main-wait-selfdestroy");
        while (!s[S_STOPRET]) vrt_yield();
        for (int i = 0; i < 2; i++) {
            vrt_label("main-wait-closures");
            while (s[S_CLOS + i] > 0) vrt_yield();
        }
        vrt_label("main");
        VRT_CHECK(s[S_RAN] == 1, "pool/ran-count", "the deleting job ran %ld times", (long)s[S_RAN]);
        vrt_outcome("other=%ld", (long)s[S_RAN + 1]);
    }
}

// a thread that is not one of the pool's own joins through the public worker() entry point ("current thread becomes a worker
// until stop() is called"): jobs may run on it, stop() must release it as well, and it returns to its caller
static void addworker_scenario(int nworkers, int njobs, int stopmode) {
    int64_t *s = vrt_scratch();
    {
        std::unique_ptr<cocls::future<int>> res;
        auto pool = std::make_unique<cocls::thread_pool>((unsigned)nworkers);
        cocls::thread_pool &P = *pool;
        vstd::thread extra([&] {
            vrt_label("added-worker");
            P.worker();
            vrt_scratch()[S_STOPRET + 1]++;
        });
        if (njobs >= 1) job_coawait(P, 0).detach();
        if (njobs >= 2)
            res.reset(new cocls::future<int>(P.run([g = ClosureGuard(1)] {
                mark_ran(1);
                return 7;
            })));
        if (stopmode == ST_SELF) {
            P.run_detached([&P] {
                P.stop();
                vrt_scratch()[S_STOPRET]++;
            });
            vrt_label("main-wait-selfstop");
            while (!s[S_STOPRET]) vrt_yield();
        } else {
            vrt_label("main-stop");
            P.stop();
        }
        vrt_label("main-join-added-worker");
        extra.join();  // worker() returns once the pool is stopped
        vrt_label("main");
        VRT_CHECK(s[S_STOPRET + 1] == 1, "pool/added-worker-not-released", "worker() did not return after stop()");
        if (njobs >= 1) {
            vrt_label(lost_labels[K_COAWAIT]);
            while (!s[S_RAN] && !s[S_CANC]) vrt_yield();
        }
        if (njobs >= 2) {
            vrt_label(lost_labels[K_RUNFN]);
            while (!res->ready()) vrt_yield();
            if (res->has_value()) {
                if (!s[S_RAN + 1]) vrt_fail("pool/value-without-run", "future has a value but the job never ran");
            } else
                mark_cancelled(1);
        }
        vrt_label("main");
        for (int i = 0; i < njobs; i++) {
            VRT_CHECK(s[S_RAN + i] + s[S_CANC + i] == 1, "pool/ran-and-cancelled", "job %d: ran=%ld cancelled=%ld", i, (long)s[S_RAN + i], (long)s[S_CANC + i]);
            if (s[S_RAN + i]) VRT_CHECK(s[S_TID + i] >= 1 && s[S_TID + i] <= nworkers + 1, "pool/ran-outside-pool", "job %d ran on thread %ld which is not a worker", i, (long)s[S_TID + i]);
        }
        vrt_label("main-destroy-pool");
        pool.reset();
        vrt_label("main-wait-closures");
        while (s[S_CLOS + 1] > 0) vrt_yield();
        vrt_label("main");
        res.reset();
        vrt_outcome("ran=%ld,%ld", (long)s[S_RAN], (long)s[S_RAN + 1]);
    }
}

// a job that ends by an exception: run() delivers it through the returned future (value-returning and void jobs alike), the worker
// survives and serves the next job
static void throwing_job_scenario(int nworkers, bool void_job) {
    int64_t *s = vrt_scratch();
    {
        cocls::thread_pool pool((unsigned)nworkers);
        std::unique_ptr<cocls::future<void>> fv;
        std::unique_ptr<cocls::future<int>> fi;
        if (void_job)
            fv.reset(new cocls::future<void>(pool.run([g = ClosureGuard(0)] {
                mark_ran(0);
                throw TestError(5);
            })));
        else
            fi.reset(new cocls::future<int>(pool.run([g = ClosureGuard(0)]() -> int {
                mark_ran(0);
                throw TestError(5);
            })));
        cocls::future<int> next = pool.run([g = ClosureGuard(1)] {
            mark_ran(1);
            return 7;
        });
        vrt_label("main-wait-results");
        int kind = 0;
        try {
            if (void_job)
                fv->wait();
            else
                (void)fi->wait();
            kind = 1;
        } catch (const TestError &e) {
            kind = e.code == 5 ? 2 : 9;
        } catch (const cocls::await_canceled_exception &) {
            kind = 3;
        }
        VRT_CHECK(kind == 2, "pool/job-exception-not-delivered", "run() of a job that throws: the returned future ended in state %d (2 = the job's exception)", kind);
        int v = next.wait();
        VRT_CHECK(v == 7 && s[S_RAN + 1] == 1, "pool/worker-lost-after-throwing-job", "the job submitted after a throwing one did not run");
        vrt_label("main-stop");
        pool.stop();
        vrt_label("main");
        vrt_outcome("ok");
    }
}

// a job on pool A creates, uses and destroys a helper pool B: A's worker must stay a worker of A and serve what follows
static void two_pools_scenario(int how) {
    int64_t *s = vrt_scratch();
    {
        auto poolA = std::make_unique<cocls::thread_pool>(1u);
        cocls::thread_pool &A = *poolA;
        A.run_detached([how] {
            {
                cocls::thread_pool B(1u);
                B.run_detached([] { mark_ran(1); });
                if (how == 1) B.stop();
            }  // ~B on a worker of A
            mark_ran(0);
        });
        A.run_detached([&A] {
            if (!is_current(A)) vrt_fail("pool/worker-forgot-its-pool", "a job of pool A runs on a thread that does not count as A's worker");
            mark_ran(2);
        });
        vrt_label("main-wait-jobs");
        while (!s[S_RAN] || !s[S_RAN + 2]) vrt_yield();
        vrt_label("main");
        poolA.reset();
        vrt_outcome("helper-job-ran=%ld", (long)s[S_RAN + 1]);
    }
}

// resume()-based submissions on a pool that stays alive until everything ran (no stop involved, so none of this is
// the known finding): a suspend point with two handles, and co_await pool(future) whose future is resolved by
// another thread while the coroutine is still suspending
static cocls::async<void> parked2(cocls::future<int> &gate, int id) {
    int v = co_await gate;
    (void)v;
    mark_ran(id);
}
static void resume_two_handles(int nworkers) {
    int64_t *s = vrt_scratch();
    {
        auto pool = std::make_unique<cocls::thread_pool>((unsigned)nworkers);
        cocls::future<int> gate;
        cocls::promise<int> gp = gate.get_promise();
        parked2(gate, 0).detach();
        parked2(gate, 1).detach();
        {
            cocls::suspend_point<bool> sp = gp(5);  // carries both coroutines
            pool->resume(sp);
            VRT_CHECK(sp.empty(), "pool/resume-left-handles", "resume(suspend_point) left %zu coroutine(s) in the suspend point", sp.size());
        }
        vrt_label("lost-live-pool:resume_sp");
        while (!s[S_RAN] || !s[S_RAN + 1]) vrt_yield();
        vrt_label("main");
        for (int i = 0; i < 2; i++)
            VRT_CHECK(s[S_TID + i] >= 1 && s[S_TID + i] <= nworkers, "pool/ran-outside-pool", "coroutine %d handed to resume() ran on thread %ld which is not a pool worker", i, (long)s[S_TID + i]);
        pool.reset();
        vrt_outcome("t0=%ld t1=%ld", (long)s[S_TID], (long)s[S_TID + 1]);
    }
}
static void coawait_fut_concurrent(int nworkers) {
    int64_t *s = vrt_scratch();
    {
        auto pool = std::make_unique<cocls::thread_pool>((unsigned)nworkers);
        cocls::future<int> gate;
        cocls::promise<int> gp = gate.get_promise();
        vstd::thread resolver([&] {
            vrt_label("resolver");
            gp(5);
        });
        job_coawait_fut(*pool, gate, 0).detach();  // suspends on pool(gate) while the resolver may already be resolving it
        vrt_label("lost-live-pool:coawait_fut");
        while (!s[S_RAN] && !s[S_CANC]) vrt_yield();
        vrt_label("main");
        resolver.join();
        VRT_CHECK(s[S_RAN] == 1, "pool/cancelled-on-live-pool", "co_await pool(future) was cancelled although the pool was never stopped");
        pool.reset();
        vrt_outcome("t0=%ld", (long)s[S_TID]);
    }
}

VRT_REGISTER(reg_pool) {
    for (int w = 1; w <= 2; w++) {
        for (int o = 0; o < 2; o++) vrt::add("pool_w" + std::to_string(w) + "_selfdestroy" + (o ? "_otherjob" : ""), [=] { selfdestroy_scenario(w, o != 0); });
        vrt::add("pool_w" + std::to_string(w) + "_live_resume2", [=] { resume_two_handles(w); });
        if (w == 1)
            for (int how = 0; how < 2; how++) vrt::add(std::string("pool_w1_live_twopools_") + (how ? "stop" : "dtor"), [=] { two_pools_scenario(how); });
        vrt::add("pool_w" + std::to_string(w) + "_live_coawaitfut-concurrent", [=] { coawait_fut_concurrent(w); });
    }
    for (int w = 1; w <= 2; w++)
        for (int n = 0; n <= 2; n++)
            for (int st : {ST_STOP, ST_SELF}) vrt::add("pool_w" + std::to_string(w) + "_addworker_j" + std::to_string(n) + "_" + stop_names[st], [=] { addworker_scenario(w, n, st); });
    for (int w = 1; w <= 2; w++)
        for (int v = 0; v < 2; v++) vrt::add("pool_w" + std::to_string(w) + "_live_throwing-" + (v ? "void" : "int") + "-job", [=] { throwing_job_scenario(w, v != 0); });
    for (int w = 2; w <= 3; w++)
        for (int k = 0; k < 2; k++) vrt::add("pool_w" + std::to_string(w) + "_dependent_" + (k ? "run" : "detached"), [=] { dependent_scenario(w, k); });
    for (int w = 1; w <= 3; w++)
        for (int st = 0; st < ST_NK; st++) {
            for (int a = 0; a < K_NK; a++) {
                std::string name = std::string("pool_w") + std::to_string(w) + "_" + kind_names[a] + "_" + stop_names[st];
                vrt::add(name, [=] {
                    int k[3] = {a, 0, 0};
                    scenario(w, 1, k, st);
                });
            }
            for (int a = 0; a < K_NK; a++)
                for (int b = a; b < K_NK; b++) {
                    std::string name = std::string("pool_w") + std::to_string(w) + "_" + kind_names[a] + "-" + kind_names[b] + "_" + stop_names[st];
                    vrt::add(name, [=] {
                        int k[3] = {a, b, 0};
                        scenario(w, 2, k, st);
                    });
                }
        }
    // three submissions
    static const int triples[][3] = {{K_COAWAIT, K_RUNFN, K_DETACHED}, {K_COAWAIT, K_COAWAIT, K_COAWAIT}, {K_RUNFN_BIG, K_DETACHED_BIG, K_CURRENT}, {K_RUNFN, K_RUNFN, K_DETACHED}};
    for (int w = 1; w <= 3; w++)
        for (int st : {ST_STOP, ST_SELF, ST_RACE})
            for (auto &t : triples) {
                std::string name = std::string("pool3_w") + std::to_string(w) + "_" + kind_names[t[0]] + "-" + kind_names[t[1]] + "-" + kind_names[t[2]] + "_" + stop_names[st];
                int a = t[0], b = t[1], c = t[2];
                vrt::add(name, [=] {
                    int k[3] = {a, b, c};
                    scenario(w, 3, k, st);
                });
            }
}

}  // namespace

int main(int argc, char **argv) { return vrt_main(argc, argv); }
