// common_seq.h - helpers shared by the sequential harnesses
#pragma once
#include <cocls/future.h>
#include <cocls/async.h>

// The thread-local ready queue (a std::deque) allocates its map and first node on first use and keeps them until the
// thread exits; touch it before any case so that this one-off allocation is not charged to a case's allocation balance.
inline cocls::async<void> seq_warm_coro() { co_return; }
inline void seq_warmup() {
    static bool done = false;
    if (done) return;
    done = true;
    seq_warm_coro().detach();
}

// A case that leaves the thread in coroutine mode (or with handles in the thread's ready queue) has been reported; the
// thread-local state is put back so that the cases that follow in this process are judged on their own.
template <typename QI>
static inline void seq_clear_ready_queue(QI &qi) {
    // reaches into the queue object by member name; if the library renames it there is nothing left to clear by hand
    if constexpr (requires { qi._queue.clear(); }) qi._queue.clear();
}
static inline void seq_reset_thread_state() {
    cocls::coro_queue::instance = nullptr;
    seq_clear_ready_queue(cocls::coro_queue::queue_impl::instance);
}

