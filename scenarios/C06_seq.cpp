// C06 - a suspend point never loses or duplicates a ready coroutine.
// Breadth-first search over operation histories on real cocls::suspend_point objects, deduplicated by a canonical key
// (per slot: exists, count, heap flag, capacity; mode). Handles are real suspended coroutines with resume counters;
// a second resume of one of them is a use-after-free under ASan, a missing resume is a counter of 0 and a leaked frame.
#include <cocls/future.h>
#include <cocls/async.h>
#include <cocls/self.h>
#include <cocls/suspend_point.h>

#include <deque>
#include <memory>
#include <optional>
#include <sstream>
#include <unordered_map>

#include "../engine/seqx/seqx.h"
#include "common_seq.h"

namespace {

using SP = cocls::suspend_point<void>;
// value attached to a typed suspend point: being moved from is visible
struct TV {
    int v;
    TV(int x) : v(x) {}
    TV(const TV &) = default;
    TV(TV &&o) noexcept : v(o.v) { o.v = -7777; }
    TV &operator=(const TV &) = default;
    TV &operator=(TV &&o) noexcept {
        v = o.v;
        o.v = -7777;
        return *this;
    }
};
using SPI = cocls::suspend_point<TV>;

// a coroutine whose only job is to be resumed exactly once
struct Tok {
    struct promise_type {
        Tok get_return_object() { return Tok{std::coroutine_handle<promise_type>::from_promise(*this)}; }
        std::suspend_always initial_suspend() noexcept { return {}; }
        std::suspend_never final_suspend() noexcept { return {}; }
        void return_void() {}
        void unhandled_exception() { std::terminate(); }
    };
    std::coroutine_handle<> h;
};
static Tok make_tok(int *counter) {
    ++*counter;
    co_return;
}

struct World;
// raw driver coroutine (resumed with plain h.resume()) that awaits a slot
static Tok drive_await(SP *sp, int *done) {
    co_await *sp;
    ++*done;
}
static Tok drive_await_self(SP *sp, int *done) {
    SP me = co_await cocls::self();
    *sp << std::move(me);
    co_await *sp;
    ++*done;
}
// own handle first: the suspend point the coroutine awaits is [me, slot contents...]
static Tok drive_await_self_first(SP *sp, int *done) {
    SP mine = co_await cocls::self();
    mine << std::move(*sp);
    co_await mine;
    ++*done;
}
static Tok drive_await_typed(SPI *sp, int *done, int *value) {
    TV &got = co_await *sp;
    *value = got.v;
    ++*done;
}

constexpr int NV = 3;
struct World {
    std::optional<SP> v[NV];
    std::optional<SPI> t;
    int t_value = 0;
    // a driver coroutine awaits the typed slot and has not been resumed yet (coroutine mode: it sits in the ready queue until the
    // outer activation returns): the awaited object must stay where it is - no further operation touches the slot
    bool t_await_in_flight = false;
    std::vector<std::unique_ptr<int>> counters;
    std::vector<std::unique_ptr<int>> drivers;  // completion counters of driver coroutines
    std::vector<std::unique_ptr<int>> cells;  // values received by co_await on the typed slot
    std::vector<int> expected_values;
    int created = 0;
    int peek_mismatch = 0;
    int live() const {
        int n = 0;
        for (auto &s : v)
            if (s) n += (int)s->size();
        if (t) n += (int)t->size();
        return n;
    }
    std::coroutine_handle<> fresh() {
        counters.emplace_back(new int(0));
        created++;
        return make_tok(counters.back().get()).h;
    }
};

enum Kind { NEW, ADD, ADD4, MERGE, ASSIGN, MOVECTOR, POP, CLEAR, DESTROY, AWAIT, AWAITSELF, AWAITSELF1, CSP, CSPNEST, CSPTHROW, DESTROYUNW, TPEEK, NEWT, TADD, TMOVE, TTOVOID, TPOP, TDESTROY, TAWAIT };
struct OpDef {
    Kind k;
    int a, b;
    std::string name;
};
static std::vector<OpDef> g_ops;
static void build_ops(int nv) {
    g_ops.clear();
    auto S = [](const char *n, int a, int b = -1) {
        std::string s = n;
        s += "(" + std::to_string(a);
        if (b >= 0) s += "," + std::to_string(b);
        return s + ")";
    };
    for (int i = 0; i < nv; i++) {
        g_ops.push_back({NEW, i, -1, S("new", i)});
        g_ops.push_back({ADD, i, -1, S("add", i)});
        g_ops.push_back({ADD4, i, -1, S("add4", i)});
        g_ops.push_back({POP, i, -1, S("pop", i)});
        g_ops.push_back({CLEAR, i, -1, S("clear", i)});
        g_ops.push_back({DESTROY, i, -1, S("destroy", i)});
        g_ops.push_back({AWAIT, i, -1, S("await", i)});
        g_ops.push_back({AWAITSELF, i, -1, S("awaitself-last", i)});
        g_ops.push_back({AWAITSELF1, i, -1, S("awaitself-first", i)});
        g_ops.push_back({DESTROYUNW, i, -1, S("destroy-during-stack-unwinding", i)});
        g_ops.push_back({CSP, i, -1, S("create_suspend_point(clear)", i)});
        g_ops.push_back({CSPNEST, i, -1, S("create_suspend_point(nested-queue(clear))", i)});
        g_ops.push_back({CSPTHROW, i, -1, S("create_suspend_point(clear-then-throw)", i)});
        for (int j = 0; j < nv; j++)
            if (i != j) {
                g_ops.push_back({MERGE, i, j, S("merge", i, j)});
                g_ops.push_back({MOVECTOR, i, j, S("movector", i, j)});
            }
    }
    g_ops.push_back({ASSIGN, 0, 1, "assign(0,1)"});
    g_ops.push_back({NEWT, 0, -1, "newt"});
    g_ops.push_back({TADD, 0, -1, "tadd"});
    g_ops.push_back({TMOVE, 0, -1, "tmove"});
    g_ops.push_back({TTOVOID, 0, -1, "ttovoid(0)"});
    g_ops.push_back({TPOP, 0, -1, "tpop"});
    g_ops.push_back({TDESTROY, 0, -1, "tdestroy"});
    g_ops.push_back({TAWAIT, 0, -1, "tawait"});
    g_ops.push_back({TPEEK, 0, -1, "tpeek"});
}

static bool enabled(const World &w, const OpDef &o, int maxh) {
    switch (o.k) {
        case NEW: return !w.v[o.a] && w.live() < maxh;
        case ADD: return w.v[o.a].has_value() && w.live() < maxh;
        case ADD4: return w.v[o.a].has_value() && w.live() + 4 <= maxh;
        case MERGE:
        case ASSIGN: return w.v[o.a].has_value() && w.v[o.b].has_value();
        case MOVECTOR: return !w.v[o.a] && w.v[o.b].has_value();
        case POP:
        case CLEAR:
        case DESTROY:
        case AWAIT:
        case AWAITSELF:
        case AWAITSELF1:
        case CSP:
        case CSPNEST:
        case CSPTHROW:
        case DESTROYUNW: return w.v[o.a].has_value();
        case TPEEK: return w.t.has_value();
        case NEWT: return !w.t && w.live() < maxh;
        case TADD: return w.t.has_value() && !w.t_await_in_flight && w.live() < maxh;
        case TMOVE:
        case TPOP:
        case TDESTROY:
        case TAWAIT: return w.t.has_value() && !w.t_await_in_flight;
        case TTOVOID: return w.t.has_value() && !w.t_await_in_flight && w.v[0].has_value();
    }
    return false;
}

static void apply(World &w, const OpDef &o) {
    switch (o.k) {
        case NEW: w.v[o.a].emplace(w.fresh()); break;
        case ADD: *w.v[o.a] << w.fresh(); break;
        case ADD4:
            for (int k = 0; k < 4; k++) *w.v[o.a] << w.fresh();
            break;
        case MERGE: *w.v[o.a] << std::move(*w.v[o.b]); break;
        case ASSIGN: *w.v[o.a] = std::move(*w.v[o.b]); break;
        case MOVECTOR: w.v[o.a].emplace(std::move(*w.v[o.b])); break;
        case POP: {
            std::coroutine_handle<> h = w.v[o.a]->pop();
            h.resume();  // noop_coroutine when empty
            break;
        }
        case CLEAR: w.v[o.a]->clear(); break;
        case DESTROY: w.v[o.a].reset(); break;
        case AWAIT: {
            w.drivers.emplace_back(new int(0));
            drive_await(&*w.v[o.a], w.drivers.back().get()).h.resume();
            break;
        }
        case AWAITSELF: {
            w.drivers.emplace_back(new int(0));
            drive_await_self(&*w.v[o.a], w.drivers.back().get()).h.resume();
            break;
        }
        case AWAITSELF1: {
            w.drivers.emplace_back(new int(0));
            drive_await_self_first(&*w.v[o.a], w.drivers.back().get()).h.resume();
            break;
        }
        case DESTROYUNW: {
            // the suspend point dies because an exception propagates through the scope that owns it
            struct G {
                std::optional<SP> *slot;
                ~G() { slot->reset(); }
            };
            try {
                G g{&w.v[o.a]};
                throw 0;
            } catch (int) {
            }
            break;
        }
        case CSP: {
            // what clear() readies is collected back out of the ready queue into a new suspend point and kept
            SP got = cocls::coro_queue::create_suspend_point([&] { w.v[o.a]->clear(); });
            *w.v[o.a] << std::move(got);
            break;
        }
        case CSPTHROW: {
            // the callback leaves by an exception after it has readied coroutines: no suspend point is produced; what was readied
            // is still resumed (at once in normal code, by the running queue session otherwise) and the thread's mode is unchanged
            try {
                SP got = cocls::coro_queue::create_suspend_point([&] {
                    w.v[o.a]->clear();
                    throw 0;
                });
                *w.v[o.a] << std::move(got);
            } catch (int) {
            }
            break;
        }
        case CSPNEST: {
            // the callback runs a nested queue session, which resumes everything that is ready: nothing is left to collect
            SP got = cocls::coro_queue::create_suspend_point([&] { cocls::coro_queue::install_queue_and_call([&] { w.v[o.a]->clear(); }); });
            *w.v[o.a] << std::move(got);
            break;
        }
        case TPEEK: {
            // looking at the attached value does not change it
            int seen = static_cast<TV>(*w.t).v;
            if (seen != w.t_value) w.peek_mismatch++;
            break;
        }
        case NEWT:
            w.t_value = 1000 + w.created;
            w.t.emplace(w.fresh(), w.t_value);
            break;
        case TADD: *w.t << w.fresh(); break;
        case TMOVE: {
            SPI tmp(std::move(*w.t));
            w.t.reset();
            w.t.emplace(std::move(tmp));
            break;
        }
        case TTOVOID: *w.v[0] << std::move(*w.t); break;
        case TPOP: w.t->pop().resume(); break;
        case TDESTROY: w.t.reset(); break;
        case TAWAIT: {
            w.drivers.emplace_back(new int(0));
            w.cells.emplace_back(new int(-1));
            w.expected_values.push_back(w.t_value);
            drive_await_typed(&*w.t, w.drivers.back().get(), w.cells.back().get()).h.resume();
            if (*w.drivers.back() == 0) w.t_await_in_flight = true;
            break;
        }
    }
}

static std::string describe(bool coro_mode, const std::vector<int> &h);
// The canonical key looks at three implementation details (count/heap word and capacity of a suspend point, length of the thread's
// ready queue). They are read through templates: if the library stops having members of these names the key falls back to what the
// public interface shows, declares itself imprecise, and the search then keys every history by its own text (no merging at all:
// still sound, merely not exhaustive to the same depth) - a renamed private member must not turn into an alarm.
static bool g_key_imprecise = getenv("C06_FORCE_IMPRECISE_KEY") != nullptr;  // the variable exercises the fallback on an unchanged library
template <typename Q>
static uint64_t ready_queue_len(const Q *q) {
    if constexpr (requires { q->_queue.size(); })
        return (uint64_t)std::min<size_t>(q->_queue.size(), 3);  // 0, 1, 2, many
    else {
        g_key_imprecise = true;
        return 0;
    }
}
template <typename S>
static uint64_t slot_key(const S *p) {
    if (!p) return (uint64_t)0;
    if constexpr (requires { p->_count_flag; p->_ext._capacity; }) {
        uint64_t cnt = p->_count_flag >> 1, heap = p->_count_flag & 1;
        uint64_t cap = heap ? p->_ext._capacity : 0;
        return 1 + cnt * 4 + heap * 2 + cap * 1024;
    } else {
        g_key_imprecise = true;
        return 1 + (uint64_t)p->size() * 4;
    }
}
static uint64_t key_of(const World &w, bool coro_mode) {
    uint64_t k = coro_mode ? 77 : 11;
    // in coroutine mode what was readied so far still waits in the thread's ready queue: part of the state
    // (create_suspend_point and nested queue sessions look at it)
    if (coro_mode && cocls::coro_queue::instance) k = seqx::mix(k, ready_queue_len(cocls::coro_queue::instance) + 1000);
    for (int i = 0; i < NV; i++) k = seqx::mix(k, slot_key(w.v[i] ? &*w.v[i] : (const SP *)nullptr));
    k = seqx::mix(k, slot_key(w.t ? static_cast<const SP *>(&*w.t) : (const SP *)nullptr) + 5);
    return k;
}

static std::string describe(bool coro_mode, const std::vector<int> &h) {
    std::ostringstream o;
    o << "mode=" << (coro_mode ? "coroutine" : "normal") << ";ops=";
    for (size_t i = 0; i < h.size(); i++) o << (i ? " " : "") << g_ops[h[i]].name;
    return o.str();
}

// replays a history on a fresh world; returns the canonical key before teardown; checks the oracle after teardown
static uint64_t run_history(seqx::Runner &R, bool coro_mode, const std::vector<int> &h, int maxh, std::vector<int> *next_enabled) {
    R.idx++;  // cases are not dealt round-robin here, but a restart must know that some case was running
    R.begin(describe(coro_mode, h));
    int64_t base = seqx::live_allocs();
    uint64_t key = 0;
    {
        World w;
        auto body = [&] {
            for (int op : h) {
                apply(w, g_ops[op]);
                R.step();
            }
            key = key_of(w, coro_mode);
            if (g_key_imprecise) key = seqx::mix(key, seqx::hash_str(describe(coro_mode, h)));
            if (next_enabled) {
                seqx::NoCount nc;
                for (size_t i = 0; i < g_ops.size(); i++)
                    if (enabled(w, g_ops[i], maxh)) next_enabled->push_back((int)i);
            }
            // typed value must have survived every move so far
            if (w.peek_mismatch) R.fail("sp/typed-value", "looking at the value of the typed suspend point gave something else than the producer supplied (%d times)", w.peek_mismatch);
            if (w.t && static_cast<TV>(*w.t).v != w.t_value) R.fail("sp/typed-value", "typed suspend point carries %d, producer supplied %d", static_cast<TV>(*w.t).v, w.t_value);
            // teardown: plain destruction of whatever is left
            for (auto &s : w.v) s.reset();
            if (!w.t_await_in_flight) w.t.reset();
        };
        if (coro_mode)
            cocls::coro_queue::install_queue_and_call(body);  // everything readied is deferred until the outer activation returns
        else
            body();
        w.t.reset();  // an awaited typed slot outlives the driver that reads its value
        for (size_t i = 0; i < w.counters.size(); i++)
            if (*w.counters[i] != 1) {
                R.fail(*w.counters[i] == 0 ? "sp/handle-lost" : "sp/handle-resumed-twice", "handle #%zu was resumed %d times", i, *w.counters[i]);
                break;
            }
        for (size_t i = 0; i < w.cells.size(); i++)
            if (*w.cells[i] != w.expected_values[i]) {
                R.fail("sp/typed-value", "co_await on the typed suspend point returned %d, producer supplied %d", *w.cells[i], w.expected_values[i]);
                break;
            }
        for (size_t i = 0; i < w.drivers.size(); i++)
            if (*w.drivers[i] != 1) {
                R.fail("sp/awaiting-coroutine-not-resumed-once", "driver coroutine #%zu (co_await on a suspend point) was resumed %d times after its await", i, *w.drivers[i]);
                break;
            }
        if (cocls::coro_queue::is_active()) {
            R.fail("sp/queue-left-active", "coro_queue still active after the outermost activation returned");
            seq_reset_thread_state();
        }
    }
    if (!R.case_fail && seqx::live_allocs() != base) R.fail("sp/allocation-balance", "%ld allocations not released (leaked frame or handle array)", (long)(seqx::live_allocs() - base));
    R.outcome(key);
    R.end(!h.empty());
    return key;
}

}  // namespace

void seqx_run(seqx::Runner &R, const std::string &tier) {
    if (R.start_idx > 0) {  // restarted behind a fatal case: the search is not resumed (reported as not exhaustive)
        seqx::g_wshm->timed_out = 1;
        return;
    }
    seq_warmup();
    bool q = tier == "quick";
    struct Cfg {
        int nv, maxh;
    };
    // one (mode, configuration) pair per worker process
    std::vector<Cfg> all = q ? std::vector<Cfg>{{2, 14}} : std::vector<Cfg>{{2, 40}, {3, 12}};
    if (R.worker >= (int)all.size() * 2) return;
    bool coro_mode = R.worker % 2 == 1;
    std::vector<Cfg> cfgs{all[(size_t)R.worker / 2]};
    // in coroutine mode the length of the ready queue is part of the state (0, 1, 2, many): fewer live handles there
    if (coro_mode)
        for (auto &c : cfgs) c.maxh = q ? 10 : (c.nv == 2 ? 26 : 10);
    for (auto &cfg : cfgs) {
        build_ops(cfg.nv);
        std::unordered_map<uint64_t, int> seen;
        std::deque<std::vector<int>> frontier;
        frontier.push_back({});
        {
            seqx::NoCount nc;
            seen[0] = 0;
        }
        while (!frontier.empty()) {
            if (seqx::wall() > R.deadline) {
                seqx::g_wshm->timed_out = 1;
                return;
            }
            std::vector<int> h = std::move(frontier.front());
            frontier.pop_front();
            std::vector<int> en;
            uint64_t k0 = run_history(R, coro_mode, h, cfg.maxh, &en);
            R.state(seqx::mix(k0, (uint64_t)cfg.nv));
            for (int op : en) {
                std::vector<int> h2 = h;
                h2.push_back(op);
                uint64_t k = run_history(R, coro_mode, h2, cfg.maxh, nullptr);
                seqx::NoCount nc;
                // handles created so far are part of the key only through the budget: include it coarsely
                if (seen.emplace(seqx::mix(k, (uint64_t)cfg.nv), 1).second) frontier.push_back(std::move(h2));
            }
        }
    }
}

void seqx_replay(seqx::Runner &R, const std::string &c) {
    seq_warmup();
    bool coro_mode = c.find("mode=coroutine") != std::string::npos;
    build_ops(3);
    std::vector<int> h;
    std::stringstream ss(c.substr(c.find("ops=") + 4));
    std::string tok;
    while (ss >> tok)
        for (size_t i = 0; i < g_ops.size(); i++)
            if (tok == g_ops[i].name) h.push_back((int)i);
    run_history(R, coro_mode, h, 1000, nullptr);
}

SEQX_MAIN()
