// C12 (threaded part) - scheduler running in its own thread / in a thread pool, against a client thread,
// under virtual time (the clock pseudo-thread may fire the earliest deadline while others are still runnable).
#include "common_vrt.h"
#include <cocls/scheduler.h>
#include <memory>

namespace {

using tp_t = std::chrono::system_clock::time_point;
static long ms_now() { return (long)std::chrono::duration_cast<std::chrono::milliseconds>(vstd::chrono::system_clock::now().time_since_epoch()).count(); }

// scratch: per sleeper i: woke count 0+i, cancelled count 4+i, wake time 8+i, wanted time 12+i; cancel result 20
enum { S_WOKE = 0, S_CANC = 4, S_AT = 8, S_WANT = 12, S_CRES = 20, S_BASE = 21 };
static char g_ids[4];

static cocls::async<void> sleeper(cocls::scheduler &sch, int i, int dur_ms) {
    int64_t *s = vrt_scratch();
    long want = ms_now() + dur_ms;
    s[S_WANT + i] = want;
    try {
        co_await sch.sleep_until(tp_t(std::chrono::milliseconds(want)), &g_ids[i]);
        s[S_AT + i] = ms_now();
        s[S_WOKE + i]++;
    } catch (const cocls::await_canceled_exception &) {
        s[S_CANC + i]++;
    }
}

enum Mode { M_THREAD = 0, M_POOL };

static void scenario(int mode, int d0, int d1, int cancel_who, bool destroy_early) {
    int64_t *s = vrt_scratch();
    {
        std::unique_ptr<cocls::thread_pool> pool;
        vstd::thread sthr;
        std::unique_ptr<cocls::scheduler> sch;
        if (mode == M_POOL) {
            pool.reset(new cocls::thread_pool(1));
            sch.reset(new cocls::scheduler(*pool));
        } else {
            sch.reset(new cocls::scheduler(sthr));
        }
        vstd::thread client([&] {
            vrt_label("client");
            sleeper(*sch, 0, d0).detach();
            sleeper(*sch, 1, d1).detach();  // d1 < d0: inserted ahead of the current earliest
            if (cancel_who >= 0) s[S_CRES] = sch->cancel(&g_ids[cancel_who]) ? 1 : 2;
        });
        client.join();
        if (!destroy_early) {
            vrt_label("main-wait-sleepers");
            for (int i = 0; i < 2; i++)
                while (!s[S_WOKE + i] && !s[S_CANC + i]) vrt_yield();
        }
        vrt_label("main-destroy-scheduler");
        sch.reset();  // must return in every schedule; pending sleeps are cancelled
        if (mode == M_THREAD) {
            vrt_label("main-join-scheduler-thread");
            sthr.join();
        }
        // A sleeper whose time point was reached has been handed to the pool (pool.resume(suspend_point)) and may still be
        // queued there: it must settle while the pool is alive.  What a pool does with queued work when it is stopped
        // is C11's subject (and its known finding), not the scheduler's.
        for (int i = 0; i < 2; i++) {
            vrt_label("main-wait-sleeper-settled");
            while (!s[S_WOKE + i] && !s[S_CANC + i]) vrt_yield();
        }
        vrt_label("main-destroy-pool");
        pool.reset();
        vrt_label("main");
        for (int i = 0; i < 2; i++) {
            VRT_CHECK(s[S_WOKE + i] + s[S_CANC + i] == 1, "sched/exactly-once", "sleep %d: %ld wake-ups and %ld cancellations", i, (long)s[S_WOKE + i], (long)s[S_CANC + i]);
            if (s[S_WOKE + i]) {
                VRT_CHECK(s[S_AT + i] >= s[S_WANT + i], "sched/early", "sleep %d woke at %ld ms, requested %ld ms", i, (long)s[S_AT + i], (long)s[S_WANT + i]);
                // "woken at its time point rather than later" is promised while the scheduling thread is otherwise idle:
                // only executions in which time never advanced while somebody was still runnable qualify
                if (vrt_early_clock_advances() == 0)
                    VRT_CHECK(s[S_AT + i] == s[S_WANT + i], "sched/late-while-idle", "sleep %d woke at %ld ms although it was due at %ld ms and the scheduling thread was idle", i,
                          (long)s[S_AT + i], (long)s[S_WANT + i]);
            }
        }
        if (cancel_who >= 0) {
            bool hit = s[S_CANC + cancel_who] > 0;
            if (s[S_CRES] == 1) VRT_CHECK(hit, "sched/cancel-true-without-effect", "cancel() returned true but sleep %d was not cancelled", cancel_who);
            if (s[S_CRES] == 2 && !destroy_early) VRT_CHECK(!hit, "sched/cancel-false-but-hit", "cancel() returned false but sleep %d was cancelled", cancel_who);
        }
        if (!destroy_early && cancel_who < 0) VRT_CHECK(s[S_WOKE] == 1 && s[S_WOKE + 1] == 1, "sched/lost-sleep", "a sleep was cancelled although nobody cancelled it");
        vrt_outcome("w0=%ld w1=%ld c=%ld", (long)s[S_WOKE], (long)s[S_WOKE + 1], (long)s[S_CRES]);
    }
}

// start(awaitable) blocks this thread as the scheduler's thread until the awaitable is resolved - here by another thread - and
// hands the result over: the complete value (or the exception), with a sleep registered meanwhile served on the way or left pending
static void start_remote_scenario(int kind, bool with_sleep) {
    int64_t *s = vrt_scratch();
    {
        cocls::scheduler sch;
        if (kind == 2) {
            cocls::future<void> f;
            cocls::promise<void> p = f.get_promise();
            vstd::thread rt([&] {
                vrt_label("resolver");
                p();
            });
            if (with_sleep) sleeper(sch, 0, 5).detach();
            vrt_label("main-start");
            sch.start(f);
            vrt_label("main");
            rt.join();
            s[30] = 1;
        } else {
            cocls::future<Counted> f;
            cocls::promise<Counted> p = f.get_promise();
            vstd::thread rt([&] {
                vrt_label("resolver");
                if (kind == 0)
                    p(Counted(42));
                else
                    p(std::make_exception_ptr(TestError(77)));
            });
            if (with_sleep) sleeper(sch, 0, 5).detach();
            vrt_label("main-start");
            try {
                Counted c = sch.start(f);
                VRT_CHECK(kind == 0, "sched/start-result", "start(future) returned a value although the future was resolved with an exception");
                VRT_CHECK(c.ok() && c.a == 42, "sched/start-result", "start(future) returned an incomplete or wrong value (a=%ld, checksum %s)", c.a, c.ok() ? "ok" : "broken");
            } catch (const TestError &e) {
                VRT_CHECK(kind == 1 && e.code == 77, "sched/start-result", "start(future) threw although the future was resolved with a value");
            }
            vrt_label("main");
            rt.join();
            s[30] = 1;
        }
        // the sleep (if any) is cancelled by the scheduler's destructor unless it was served before start() returned
    }
    if (with_sleep) VRT_CHECK(s[S_WOKE] + s[S_CANC] == 1, "sched/exactly-once", "the sleep registered before start(): %ld wake-ups and %ld cancellations", (long)s[S_WOKE], (long)s[S_CANC]);
    VRT_CHECK(Counted::live() == 0, "sched/value-lifetime", "%ld result values alive at the end", (long)Counted::live());
    vrt_outcome("woke=%ld", (long)s[S_WOKE]);
}

// two threads run the scheduler at once (start() may be called by several threads): while one of them is kept busy by the coroutine
// it woke, the other one - idle - serves the next sleep at its time point
static cocls::async<void> busy_after_sleep(cocls::scheduler &sch, int dur_ms, int busy_ms) {
    int64_t *s = vrt_scratch();
    long want = ms_now() + dur_ms;
    s[S_WANT + 0] = want;
    co_await sch.sleep_until(tp_t(std::chrono::milliseconds(want)), &g_ids[0]);
    s[S_AT + 0] = ms_now();
    {
        // the woken coroutine keeps its thread for a while (a timed wait nobody notifies)
        vstd::mutex m;
        vstd::condition_variable cv;
        std::unique_lock<vstd::mutex> lk(m);
        cv.wait_until(lk, tp_t(std::chrono::milliseconds(ms_now() + busy_ms)));
    }
    s[S_WOKE + 0]++;
}
static void two_workers_scenario() {
    int64_t *s = vrt_scratch();
    {
        cocls::scheduler sch;
        cocls::future<void> stop1, stop2;
        cocls::promise<void> p1 = stop1.get_promise(), p2 = stop2.get_promise();
        vstd::thread w1([&] {
            vrt_label("worker1");
            sch.start(stop1);
        });
        vstd::thread w2([&] {
            vrt_label("worker2");
            sch.start(stop2);
        });
        busy_after_sleep(sch, 5, 7).detach();  // due at +5, then busy until +12
        sleeper(sch, 1, 10).detach();          // due at +10: the other worker is idle then
        vrt_label("main-wait-sleepers");
        while (!s[S_WOKE + 0] || !s[S_WOKE + 1]) vrt_yield();
        vrt_label("main-stop-workers");
        p1();
        p2();
        w1.join();
        w2.join();
        vrt_label("main");
        VRT_CHECK(s[S_AT + 1] >= s[S_WANT + 1], "sched/early", "sleep 1 woke at %ld ms, requested %ld ms", (long)s[S_AT + 1], (long)s[S_WANT + 1]);
        if (vrt_early_clock_advances() == 0)
            VRT_CHECK(s[S_AT + 1] == s[S_WANT + 1], "sched/late-while-idle", "two scheduler threads: the sleep due at %ld ms was served at %ld ms although one of the threads was idle", (long)s[S_WANT + 1],
                      (long)s[S_AT + 1]);
        vrt_outcome("b_at=%ld", (long)(s[S_AT + 1] - s[S_WANT + 1]));
    }
}

VRT_REGISTER(reg_sched) {
    vrt::add("sch_two-workers", [] { two_workers_scenario(); });
    static const char *sr_names[] = {"value", "exception", "void"};
    for (int k = 0; k < 3; k++)
        for (int ws = 0; ws < 2; ws++) vrt::add(std::string("sch_start-remote_") + sr_names[k] + (ws ? "_with-sleep" : ""), [=] { start_remote_scenario(k, ws != 0); });
    for (int mode = 0; mode < 2; mode++)
        for (int cw = -1; cw < 2; cw++)
            for (int de = 0; de < 2; de++)
                for (int order = 0; order < 2; order++) {
                    std::string name = std::string("sch_") + (mode ? "pool" : "thread") + (order ? "_10-5" : "_5-10") + (cw < 0 ? "" : "_cancel" + std::to_string(cw)) + (de ? "_destroy-early" : "");
                    vrt::add(name, [=] { scenario(mode, order ? 10 : 5, order ? 5 : 10, cw, de != 0); });
                }
    // destruction of an idle scheduler must not hang
    for (int mode = 0; mode < 2; mode++)
        vrt::add(std::string("sch_") + (mode ? "pool" : "thread") + "_idle-destroy", [=] {
            std::unique_ptr<cocls::thread_pool> pool;
            vstd::thread sthr;
            std::unique_ptr<cocls::scheduler> sch;
            if (mode == M_POOL) {
                pool.reset(new cocls::thread_pool(1));
                sch.reset(new cocls::scheduler(*pool));
            } else
                sch.reset(new cocls::scheduler(sthr));
            vrt_label("main-destroy-scheduler");
            sch.reset();
            if (mode == M_THREAD) {
                vrt_label("main-join-scheduler-thread");
                sthr.join();
            }
            vrt_label("main");
            pool.reset();
            vrt_outcome("ok");
        });
}

}  // namespace

int main(int argc, char **argv) { return vrt_main(argc, argv); }
