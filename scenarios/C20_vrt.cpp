// C20 (threaded part) - no dynamic allocation in cross-thread use of future/promise and the coroutine mutex.
// The run-time counts every malloc/operator new made by the threads of an execution (vrt_alloc_count()).
#include "common_vrt.h"
#include <cocls/coro_storage.h>
#include <cocls/mutex.h>
#include <cocls/with_allocator.h>
#include <atomic>
#include <memory>

namespace {
using Store = cocls::reusable_storage;
template <typename T>
using Co = cocls::with_allocator<Store, cocls::async<T>>;

struct Sync {
    std::atomic<int> ready{0};
    std::atomic<int> go{0};
    void arrive_and_wait() {
        ready.fetch_add(1);
        while (!go.load()) vrt_yield();
    }
};
static Co<void> warm(Store &) { co_return; }
static Co<void> fut_waiter(Store &, cocls::future<int> &f, int *seen) {
    int v = co_await f;
    *seen = v;
}
static Co<void> mx_user(Store &, cocls::mutex &mx, int *cnt, bool await_release) {
    cocls::mutex::ownership own = co_await mx.lock();
    ++*cnt;
    if (await_release)
        co_await own.release();
    else
        own.release();
}

enum Prog { P_FUT_WAIT = 0, P_FUT_CORO, P_FUT_BOTH, P_MX_BLOCK_CORO, P_MX_CORO_CORO, P_FUT_FORCE_WAIT, P_FUT_SYNC_BIND, NP };
static const char *p_names[] = {"future_wait", "future_coro", "future_wait+coro", "mutex_block+coro", "mutex_coro+coro", "future_force_wait", "future_sync+bind"};

static void scenario(int prog) {
    Store st[3];
    for (auto &s : st) s.alloc(1024);  // frame memory is the user's: provided before the measured region
    cocls::future<int> f;
    cocls::promise<int> p = f.get_promise();
    cocls::mutex mx;
    Sync sy;
    int seen[2] = {0, 0}, cnt = 0;
    int nthreads = 2;
    auto body = [&](int id) {
        static const char *labels[] = {"a", "b"};
        vrt_label(labels[id]);
        warm(st[id]).detach();  // creates this thread's ready queue (one-off, not an allocation of the primitives)
        sy.arrive_and_wait();
        switch (prog) {
            case P_FUT_WAIT:
                if (id == 0)
                    seen[0] = f.wait();
                else
                    p(7);
                break;
            case P_FUT_CORO:
                if (id == 0)
                    fut_waiter(st[0], f, &seen[0]).detach();
                else
                    p(7);
                break;
            case P_FUT_BOTH:
                if (id == 0) {
                    fut_waiter(st[0], f, &seen[0]).detach();
                    seen[1] = f.wait();
                } else
                    p(7);
                break;
            case P_FUT_FORCE_WAIT:  // the other blocking entry points: force_wait() ...
                if (id == 0)
                    seen[0] = f.force_wait();
                else
                    p(7);
                break;
            case P_FUT_SYNC_BIND:  // ... force_sync(), and a resolver that goes through promise::bind()
                if (id == 0) {
                    f.force_sync();
                    seen[0] = f.value();
                } else {
                    auto bound = p.bind(7);
                    bound();
                }
                break;
            case P_MX_BLOCK_CORO:
                if (id == 0) {
                    cocls::mutex::ownership o = mx.lock().wait();
                    ++cnt;
                } else
                    mx_user(st[1], mx, &cnt, false).detach();
                break;
            case P_MX_CORO_CORO: mx_user(st[id], mx, &cnt, id == 0).detach(); break;
        }
    };
    vstd::thread t0(body, 0), t1(body, 1);
    vrt_label("main-wait-ready");
    while (sy.ready.load() < nthreads) vrt_yield();
    uint64_t a0 = vrt_alloc_count();
    sy.go.store(1);
    vrt_label("main");
    t0.join();
    t1.join();
    if (prog == P_MX_BLOCK_CORO || prog == P_MX_CORO_CORO) {
        vrt_label("main-wait-mutex-users");
        while (cnt < 2) vrt_yield();
        vrt_label("main");
    } else {
        p(cocls::drop);
    }
    uint64_t a1 = vrt_alloc_count();
    VRT_CHECK(a1 == a0, "noalloc/threaded", "%lu dynamic allocations between the start of the measured region and the end of program '%s'", (unsigned long)(a1 - a0), p_names[prog]);
    vrt_outcome("allocs=%lu", (unsigned long)(a1 - a0));
}

VRT_REGISTER(reg_noalloc) {
    for (int p = 0; p < NP; p++) vrt::add(std::string("noalloc_") + p_names[p], [=] { scenario(p); });
}
}  // namespace
int main(int argc, char **argv) { return vrt_main(argc, argv); }
