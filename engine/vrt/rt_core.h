// rt_core.h - shared declarations of the vrt runtime (single TU: rt.cpp includes the .inc parts)
#pragma once
#ifndef _GNU_SOURCE
#define _GNU_SOURCE
#endif
#include <errno.h>
#include <fcntl.h>
#include <limits.h>
#include <linux/futex.h>
#include <pthread.h>
#include <signal.h>
#include <stdarg.h>
#include <stdint.h>
#include <stdio.h>
#include <stdlib.h>
#include <string.h>
#include <sys/mman.h>
#include <sys/personality.h>
#include <sys/syscall.h>
#include <sys/time.h>
#include <sys/wait.h>
#include <time.h>
#include <unistd.h>

#include "vrt_api.h"

namespace vrt_rt {

constexpr int MAXT = 8;            // threads per execution (incl. main)
constexpr int CLOCK_CH = 15;       // pseudo choice "advance virtual clock"
constexpr int MAXPTS = 16384;      // scheduling points per execution
constexpr int MAXDEV = 120;        // non-default choices per schedule
constexpr int MAXOBJ = 8192;       // sync objects per execution (power of two)
constexpr int MAXLOG = 4096;       // event log entries kept per execution
constexpr int MAXVIOL = 96;        // distinct violation signatures kept per run
constexpr int MAXRACY = 512;       // racy PCs
constexpr int MAXOUT = 256;        // distinct outcomes tracked
constexpr int MAXSAMPLES = 4;
constexpr int64_t T_INF = INT64_MAX;
constexpr int64_t T0_NS = 1000000000000000LL;  // virtual epoch start (1e6 s)

constexpr uintptr_t ARENA_BASE = 0x100000000000ULL;
constexpr size_t ARENA_SZ = 32u << 20;  // per thread
constexpr uintptr_t STACK_BASE = 0x110000000000ULL;
constexpr size_t STACK_SZ = 1u << 20;
constexpr size_t STACK_STRIDE = STACK_SZ + (64u << 10);
constexpr int MAXBLK = 16384;  // blocks per arena

struct H2 {
    uint64_t a, b;
};
static inline uint64_t mix64(uint64_t x) {
    x ^= x >> 30;
    x *= 0xbf58476d1ce4e5b9ULL;
    x ^= x >> 27;
    x *= 0x94d049bb133111ebULL;
    x ^= x >> 31;
    return x;
}
static inline H2 hmix(H2 h, uint64_t v) {
    h.a = mix64(h.a ^ (v + 0x9e3779b97f4a7c15ULL));
    h.b = mix64(h.b + v * 0xff51afd7ed558ccdULL + 0x1234567ULL) ^ (h.a >> 9);
    return h;
}
static inline H2 hmix2(H2 h, H2 v) { return hmix(hmix(h, v.a), v.b); }

enum OpKind : uint8_t {
    OP_NONE = 0,
    OP_START,
    OP_ALOAD,
    OP_ASTORE,
    OP_ARMW,
    OP_ACAS,
    OP_MLOCK,
    OP_MTRY,
    OP_MUNLOCK,
    OP_CVWAIT_BEGIN,
    OP_CVWAIT_WAKE,
    OP_CVNOTIFY,
    OP_AWAIT_CHK,
    OP_AWAIT_BLOCKED,
    OP_ANOTIFY,
    OP_CREATE,
    OP_JOIN,
    OP_YIELD,
    OP_NOW,
    OP_PLAINR,
    OP_PLAINW,
    OP_GENERIC,
    OP_BLOCKON,
    OP_EXIT,
    OP_CHOOSE,
    OP_FENCE,
    OP_USERLOG,
};
extern const char *const op_names[];

struct Op {
    OpKind kind;
    const void *obj;
    int64_t aux;  // join target / deadline / ...
    int (*pred)(void *);
    void *parg;
    const char *what;
};

struct Thr {
    int state;  // 0 unused, 1 live, 2 finished
    int go;     // futex word
    pthread_t pt;
    bool pt_valid;
    Op pend;
    H2 hash;
    uint32_t C[MAXT];
    uint32_t acqp[MAXT];
    uint32_t relf[MAXT];
    bool has_relf;
    const char *label;
    void (*fn)(void *);
    void *arg;
    bool detached;
    uint64_t yseq;
    uint64_t last_op_seq;
    bool notified;
    bool timed_out;
    int64_t deadline;
    const void *waiting_on;  // cv / atomic address
    struct {
        void (*f)(void *);
        void *o;
    } dt[32];
    int ndt;
    uint64_t cs[64];
    int csn;
    int atomic_depth;  // inside a shim critical section
    int last_sched;    // index of the last scheduling point at which this thread was chosen (fair default choice)
};

enum ObjKind : uint8_t { OK_NONE = 0, OK_ATOMIC, OK_MUTEX, OK_CV, OK_PLAIN, OK_GENERIC, OK_CLOCK };
struct SyncObj {
    uintptr_t addr;
    uint32_t gen;
    ObjKind kind;
    uint8_t touched;  // bit mask of threads
    int8_t owner;     // mutex owner or -1
    bool hasR;
    H2 ver;
    uint32_t R[MAXT];
};

struct Point {
    uint8_t kind;  // 0 thread choice, 1 value choice
    int8_t cur;    // thread that was running (or -1)
    uint8_t cur_enabled;
    uint8_t chosen;
    uint16_t mask;  // enabled threads (bit CLOCK_CH = clock) or n for value choice
    uint8_t cost_before;
    uint8_t alt_cost;  // for value choices
    uint64_t key_a, key_b;
};

struct Dev {
    uint16_t idx;
    uint8_t choice;
    uint8_t pad;
};
struct Work {
    uint16_t ndev;
    uint16_t cost;
    uint32_t pad;
    uint64_t expect_key;  // key at the last deviation point (0 = unchecked)
    Dev devs[MAXDEV];
};

struct LogEnt {
    uint8_t tid;
    uint8_t kind;
    uint16_t pad;
    uint32_t extra;
    uintptr_t obj;
    uint64_t val;
    char text[40];
};

struct Viol {
    char sig[200];
    char detail[1800];
    uint32_t count;
    Work w;        // schedule
    int npoints;   // points executed when it failed
    int nracy;     // number of racy PCs active when it was found
    char log[6000];
};

struct Sample {
    char text[3000];
};

struct CacheEnt {
    uint64_t tag;
    uint64_t rem;  // remaining budget + 1 (0 = empty)
};

struct Shm {
    volatile int lock;
    // work
    volatile int64_t outstanding;
    volatile int shared_n;
    int shared_cap;
    volatile int idle;
    volatile int timed_out;
    volatile int overflow;
    volatile int dev_overflow;
    volatile int pts_overflow;
    volatile int harness_error;
    volatile int viol_execs;      // violating executions in this scenario
    int max_viol_execs;
    volatile int stopped_after_violations;
    char harness_error_msg[1024];
    // params
    int bound;
    int nworkers;
    double deadline;  // absolute wall time
    int scenario;
    int race_oracle;
    int no_cache;
    int replay_mode;
    int spurious;  // explore spurious compare_exchange_weak failures and spurious condition-variable wake-ups (1 deviation each)
    // stats
    volatile uint64_t executions, transitions, states, pruned, cache_hits, completed, deadlocks;
    volatile uint64_t max_points;
    volatile uint64_t nontrivial_distinct, final_distinct;
    volatile uint64_t choose_points;
    volatile uint64_t leaks_checked;
    volatile uint64_t respawns;
    // outcomes
    volatile int nout;
    uint64_t out_hash[MAXOUT];
    char out_text[MAXOUT][96];
    uint64_t out_count[MAXOUT];
    // violations
    volatile int nviol;
    Viol viol[MAXVIOL];
    // racy pcs
    volatile int nracy;
    uintptr_t racy[MAXRACY];
    volatile int racy_new;  // PCs discovered during this round (not yet active)
    uintptr_t racy_pending[MAXRACY];
    // race pairs seen (for reports)
    // samples
    volatile int nsamples;
    Sample samples[MAXSAMPLES];
    // cache
    uint64_t cache_mask;
    // followed by CacheEnt cache[], Work shared[]
};

extern Shm *shm;
extern CacheEnt *cache_tab;
extern CacheEnt *final_tab;
extern Work *shared_stack;

// execution state (private to a worker process)
extern Thr T[MAXT];
extern int nthr;
extern int cur;  // running thread
extern __thread int tls_tid;
extern __thread int tls_in_rt;
extern __thread int tls_user_access;  // run-time is dereferencing a program-supplied address on the program's behalf
extern int64_t vnow;
extern uint64_t op_seq;
extern uint64_t write_seq;  // state-changing operations executed so far (drives vrt_yield)
extern Point pts[MAXPTS];
extern int npts;
extern int cost_so_far;
extern Work cur_work;
extern int cur_dev_i;
extern bool exec_active;

[[noreturn]] void fail_execution(const char *sig, const char *detail);
void harness_error(const char *fmt, ...) __attribute__((format(printf, 1, 2)));
void sched_point(const Op &op);
void log_event(int kind, const void *obj, uint64_t val, const char *text);

static inline long futex(volatile int *addr, int op, int val, const struct timespec *ts) {
    return syscall(SYS_futex, addr, op, val, ts, nullptr, 0);
}
static inline double wall() {
    struct timespec ts;
    clock_gettime(CLOCK_MONOTONIC, &ts);
    return ts.tv_sec + ts.tv_nsec * 1e-9;
}

struct RtGuard {
    RtGuard() { ++tls_in_rt; }
    ~RtGuard() { --tls_in_rt; }
};

}  // namespace vrt_rt
