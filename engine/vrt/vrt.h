// vrt.h - C++ conveniences for harness code running under the vrt back-end
#pragma once
#include <functional>
#include <string>
#include <vector>

#include "vrt_api.h"

namespace vrt {

inline void yield() { vrt_yield(); }
inline int choose(int n, int cost = 0) { return vrt_choose(n, cost); }
inline void label(const char *l) { vrt_label(l); }

#define VRT_CHECK(cond, sig, ...)                  \
    do {                                           \
        if (!(cond)) vrt_fail(sig, __VA_ARGS__);   \
    } while (0)

// scenario registry: name -> closure (closures live in the process heap, created before any execution)
inline std::vector<std::function<void()>> &bodies() {
    static std::vector<std::function<void()>> v;
    return v;
}
inline void tramp(void *arg) { bodies()[(size_t)(uintptr_t)arg](); }
inline void add(const std::string &name, std::function<void()> body) {
    bodies().push_back(std::move(body));
    vrt_register(name.c_str(), &tramp, (void *)(uintptr_t)(bodies().size() - 1));
}
struct Registrar {
    Registrar(const char *name, void (*fn)()) { add(name, fn); }
    template <typename F>
    Registrar(int, F f) {
        f();
    }
};
#define VRT_SCENARIO(name)                              \
    static void name();                                 \
    static ::vrt::Registrar name##_registrar(#name, &name); \
    static void name()
// runs a registration function at static-initialisation time (for parametric scenario families)
#define VRT_REGISTER(tag) static void tag(); static ::vrt::Registrar tag##_registrar(0, &tag); static void tag()

}  // namespace vrt
