// rt.cpp - vrt: verification run-time for controlled-concurrency exploration of real C++ code.
// Built WITHOUT -fsanitize=thread; it *is* the sanitizer run-time for the instrumented harness TUs.
#include "rt_core.h"
#include "rt_hb.inc"
#include "rt_sched.inc"
#include "rt_heap.inc"
#include "rt_api.inc"
#include "rt_tsan.inc"
#include "rt_explore.inc"
