// vrt_api.h - C interface between the std-shim / harness code and a back-end.
// Two back-ends implement it:
//   engine/vrt/rt.cpp        controlled-concurrency explorer (real pthreads serialised by our scheduler)
//   engine/seqx/seq_backend.cpp  single-thread semantics for sequential exploration under ASan
#pragma once
#include <stddef.h>
#include <stdint.h>

#ifdef __cplusplus
extern "C" {
#endif

// ---- blocking primitives (objects are identified by address) -------------------------------
void vrt_mutex_destroy(void *m);
void vrt_mutex_lock(void *m);
int  vrt_mutex_trylock(void *m);
void vrt_mutex_unlock(void *m);

void vrt_cv_destroy(void *cv);
// returns 1 if the wait ended by timeout. deadline_ns == INT64_MAX means untimed.
int  vrt_cv_wait(void *cv, void *m, int64_t deadline_ns);
void vrt_cv_notify(void *cv, int all);

int64_t vrt_now_ns(void);
// number of times the virtual clock was advanced while some thread was still runnable ("timer lands first" deviations)
int vrt_early_clock_advances(void);

int  vrt_thread_create(void (*fn)(void *), void *arg);
void vrt_thread_join(int tid);
void vrt_thread_detach(int tid);
int  vrt_self(void);
unsigned vrt_hw_concurrency(void);

// futex-like wait on an atomic object: blocks while *(addr) == old (compared on 'size' bytes)
void vrt_atomic_wait(const volatile void *addr, int size, uint64_t old, int mo);
void vrt_atomic_notify(const volatile void *addr, int all);

// generic visible operation on an abstract object (acq_rel read-modify-write for HB and hashing)
void vrt_op(const void *obj, const char *what);
// block until pred(arg) becomes true (evaluated by the scheduler); acts as vrt_op(obj) when it proceeds
void vrt_block_on(int (*pred)(void *), void *arg, const void *obj, const char *what);

// shim-internal critical sections: between begin and end the calling thread's plain accesses are neither scheduling
// points nor subject to the race oracle (the section is ordered by the vrt_op that precedes it)
void vrt_atomic_begin(void);
void vrt_atomic_end(void);

// ---- harness side -------------------------------------------------------------------------
// disabled until some other thread has executed a visible operation (use inside polling loops)
void vrt_yield(void);
// value choice 0..n-1 explored exhaustively; picking a non-zero value costs 'cost' deviations
int  vrt_choose(int n, int cost);
// report a property violation with signature 'sig' (stable text) and a free-form detail; does not return
void vrt_fail(const char *sig, const char *fmt, ...) __attribute__((format(printf, 2, 3), noreturn));
// append a line to the per-execution event log
void vrt_log(const char *fmt, ...) __attribute__((format(printf, 1, 2)));
// label the calling thread (used in deadlock signatures); string must have static lifetime
void vrt_label(const char *label);
// describe the observable outcome of this execution (counted to expose vacuous exploration)
void vrt_outcome(const char *fmt, ...) __attribute__((format(printf, 1, 2)));
// number of heap allocations (malloc/operator new) made so far by instrumented code in this execution
uint64_t vrt_alloc_count(void);
// bytes currently live from allocations of this execution
uint64_t vrt_live_blocks(void);
// true when running under the vrt back-end inside an execution
int  vrt_active(void);
// uninstrumented scratch counters for oracles (index 0..63); reset at the start of each execution
int64_t *vrt_scratch(void);

typedef void (*vrt_scenario_fn)(void *arg);
void vrt_register(const char *name, vrt_scenario_fn fn, void *arg);
int  vrt_main(int argc, char **argv);

#ifdef __cplusplus
}
#endif
