// vstd.h - namespace shim: inside namespace cocls, `std::mutex`, `std::condition_variable`, `std::thread`,
// `std::atomic<T>::wait/notify`, `std::chrono::system_clock::now()`, `std::stop_*` resolve to the types below,
// which delegate every blocking / time / thread operation to the back-end declared in vrt_api.h.
// Force-included (-include) into harness TUs together with -DCOCLS_VERIF. Nothing in /repo is modified.
#pragma once
#ifdef COCLS_VERIF

#include <atomic>
#include <chrono>
#include <condition_variable>
#include <cstring>
#include <functional>
#include <memory>
#include <mutex>
#include <stop_token>
#include <thread>
#include <tuple>
#include <utility>

#include "../vrt/vrt_api.h"

namespace cocls {
namespace std {
using namespace ::std;

// ------------------------------------------------------------------ mutex
class mutex {
public:
    constexpr mutex() noexcept = default;
    mutex(const mutex &) = delete;
    mutex &operator=(const mutex &) = delete;
    ~mutex() { vrt_mutex_destroy(this); }
    void lock() { vrt_mutex_lock(this); }
    bool try_lock() { return vrt_mutex_trylock(this) != 0; }
    void unlock() { vrt_mutex_unlock(this); }

private:
    char _pad = 0;
};

// primitives the back-end does not model: incomplete on purpose, so that a use fails to compile
class recursive_mutex;
class timed_mutex;
class recursive_timed_mutex;
class shared_mutex;
class shared_timed_mutex;
class condition_variable_any;
class jthread;
class latch;
template <ptrdiff_t N>
class counting_semaphore;
class binary_semaphore;
template <typename T>
class barrier;

// ------------------------------------------------------------------ chrono (virtual time)
namespace chrono {
using namespace ::std::chrono;
struct system_clock {
    using duration = ::std::chrono::system_clock::duration;
    using rep = duration::rep;
    using period = duration::period;
    using time_point = ::std::chrono::system_clock::time_point;
    static constexpr bool is_steady = false;
    static time_point now() noexcept {
        return time_point(::std::chrono::duration_cast<duration>(::std::chrono::nanoseconds(vrt_now_ns())));
    }
    static ::std::time_t to_time_t(const time_point &t) noexcept { return ::std::chrono::system_clock::to_time_t(t); }
    static time_point from_time_t(::std::time_t t) noexcept { return ::std::chrono::system_clock::from_time_t(t); }
};
struct steady_clock {
    using duration = ::std::chrono::steady_clock::duration;
    using rep = duration::rep;
    using period = duration::period;
    using time_point = ::std::chrono::steady_clock::time_point;
    static constexpr bool is_steady = true;
    static time_point now() noexcept {
        return time_point(::std::chrono::duration_cast<duration>(::std::chrono::nanoseconds(vrt_now_ns())));
    }
};
using high_resolution_clock = system_clock;
}  // namespace chrono

namespace _vdetail {
template <typename TP>
inline int64_t to_deadline_ns(const TP &tp) {
    using namespace ::std::chrono;
    auto d = tp.time_since_epoch();
    using D = decltype(d);
    // anything within one hour of the representable maximum is "never"
    if (d >= D::max() - duration_cast<D>(hours(1))) return INT64_MAX;
    auto secs = duration_cast<seconds>(d).count();
    if (secs > 9000000000LL) return INT64_MAX;
    return duration_cast<nanoseconds>(d).count();
}
}  // namespace _vdetail

// ------------------------------------------------------------------ condition_variable
class condition_variable {
public:
    condition_variable() = default;
    condition_variable(const condition_variable &) = delete;
    condition_variable &operator=(const condition_variable &) = delete;
    ~condition_variable() { vrt_cv_destroy(this); }
    void notify_one() noexcept { vrt_cv_notify(this, 0); }
    void notify_all() noexcept { vrt_cv_notify(this, 1); }
    void wait(::std::unique_lock<mutex> &lk) { vrt_cv_wait(this, lk.mutex(), INT64_MAX); }
    template <typename P>
    void wait(::std::unique_lock<mutex> &lk, P pred) {
        while (!pred()) wait(lk);
    }
    template <typename C, typename D>
    ::std::cv_status wait_until(::std::unique_lock<mutex> &lk, const ::std::chrono::time_point<C, D> &tp) {
        return vrt_cv_wait(this, lk.mutex(), _vdetail::to_deadline_ns(tp)) ? ::std::cv_status::timeout : ::std::cv_status::no_timeout;
    }
    template <typename C, typename D, typename P>
    bool wait_until(::std::unique_lock<mutex> &lk, const ::std::chrono::time_point<C, D> &tp, P pred) {
        while (!pred())
            if (wait_until(lk, tp) == ::std::cv_status::timeout) return pred();
        return true;
    }
    template <typename R, typename Pd>
    ::std::cv_status wait_for(::std::unique_lock<mutex> &lk, const ::std::chrono::duration<R, Pd> &d) {
        return wait_until(lk, chrono::system_clock::now() + ::std::chrono::duration_cast<chrono::system_clock::duration>(d));
    }
    template <typename R, typename Pd, typename P>
    bool wait_for(::std::unique_lock<mutex> &lk, const ::std::chrono::duration<R, Pd> &d, P pred) {
        return wait_until(lk, chrono::system_clock::now() + ::std::chrono::duration_cast<chrono::system_clock::duration>(d), ::std::move(pred));
    }

private:
    char _pad = 0;
};

// ------------------------------------------------------------------ thread
class thread {
public:
    class id {
    public:
        id() noexcept = default;
        explicit id(int v) noexcept : _v(v) {}
        friend bool operator==(id a, id b) noexcept { return a._v == b._v; }
        friend bool operator!=(id a, id b) noexcept { return a._v != b._v; }
        friend bool operator<(id a, id b) noexcept { return a._v < b._v; }
        int value() const { return _v; }

    private:
        int _v = -1;
    };
    thread() noexcept = default;
    template <typename F, typename... A>
        requires(!::std::is_same_v<::std::remove_cvref_t<F>, thread>)
    explicit thread(F &&f, A &&...a) {
        using Tup = ::std::tuple<::std::decay_t<F>, ::std::decay_t<A>...>;
        auto *p = new Tup(::std::forward<F>(f), ::std::forward<A>(a)...);
        _tid = vrt_thread_create(&tramp<Tup>, p);
    }
    ~thread() {
        if (joinable()) ::std::terminate();
    }
    thread(const thread &) = delete;
    thread &operator=(const thread &) = delete;
    thread(thread &&o) noexcept : _tid(::std::exchange(o._tid, -1)) {}
    thread &operator=(thread &&o) noexcept {
        if (joinable()) ::std::terminate();
        _tid = ::std::exchange(o._tid, -1);
        return *this;
    }
    void swap(thread &o) noexcept { ::std::swap(_tid, o._tid); }
    bool joinable() const noexcept { return _tid >= 0; }
    void join() {
        vrt_thread_join(_tid);
        _tid = -1;
    }
    void detach() {
        vrt_thread_detach(_tid);
        _tid = -1;
    }
    id get_id() const noexcept { return id(_tid); }
    static unsigned hardware_concurrency() noexcept { return vrt_hw_concurrency(); }

private:
    template <typename Tup>
    static void tramp(void *q) {
        ::std::unique_ptr<Tup> p(static_cast<Tup *>(q));
        ::std::apply([](auto &&f, auto &&...a) { ::std::invoke(::std::move(f), ::std::move(a)...); }, ::std::move(*p));
    }
    int _tid = -1;
};

namespace this_thread {
inline thread::id get_id() noexcept { return thread::id(vrt_self()); }
inline void yield() noexcept { vrt_yield(); }
template <typename R, typename P>
void sleep_for(const ::std::chrono::duration<R, P> &) = delete;  // real sleeping is not modelled
template <typename C, typename D>
void sleep_until(const ::std::chrono::time_point<C, D> &) = delete;
}  // namespace this_thread

// GCC does not instrument fences under -fsanitize=thread; route them to the run-time explicitly
extern "C" void __tsan_atomic_thread_fence(int mo);
inline void atomic_thread_fence(::std::memory_order m) noexcept {
    ::std::atomic_thread_fence(m);
    __tsan_atomic_thread_fence((int)m);
}

// ------------------------------------------------------------------ atomic (wait / notify only)
template <typename T>
struct atomic : ::std::atomic<T> {
    using base = ::std::atomic<T>;
    using base::base;
    using base::operator=;
    atomic() noexcept = default;
    void wait(T old, ::std::memory_order mo = ::std::memory_order_seq_cst) const noexcept {
        uint64_t o = 0;
        static_assert(sizeof(T) <= 8, "atomic wait on wide types is not modelled");
        ::std::memcpy(&o, &old, sizeof(T));
        vrt_atomic_wait(static_cast<const void *>(this), (int)sizeof(T), o, (int)mo);
    }
    void notify_one() noexcept { vrt_atomic_notify(static_cast<const void *>(this), 0); }
    void notify_all() noexcept { vrt_atomic_notify(static_cast<const void *>(this), 1); }
};

// ------------------------------------------------------------------ stop_token family
namespace _vdetail {
struct stop_cb_base {
    void (*invoke)(stop_cb_base *) = nullptr;
    stop_cb_base *next = nullptr;
    stop_cb_base *prev = nullptr;
    bool linked = false;
    bool *destroyed_flag = nullptr;
};
struct stop_state {
    bool requested = false;
    stop_cb_base *head = nullptr;
    stop_cb_base *executing = nullptr;
    int exec_tid = -1;
    void unlink(stop_cb_base *cb) {
        if (cb->prev)
            cb->prev->next = cb->next;
        else
            head = cb->next;
        if (cb->next) cb->next->prev = cb->prev;
        cb->next = cb->prev = nullptr;
        cb->linked = false;
    }
    bool request_stop() {
        vrt_op(this, "request_stop");
        vrt_atomic_begin();
        if (requested) {
            vrt_atomic_end();
            return false;
        }
        requested = true;
        while (head) {
            stop_cb_base *cb = head;
            unlink(cb);
            executing = cb;
            exec_tid = vrt_self();
            bool destroyed = false;
            cb->destroyed_flag = &destroyed;
            vrt_atomic_end();
            cb->invoke(cb);
            vrt_op(this, "stop_callback returned");
            vrt_atomic_begin();
            if (!destroyed) cb->destroyed_flag = nullptr;
            executing = nullptr;
            exec_tid = -1;
        }
        vrt_atomic_end();
        return true;
    }
};
struct atomic_section {
    atomic_section() { vrt_atomic_begin(); }
    ~atomic_section() { vrt_atomic_end(); }
};
struct exec_wait {
    stop_state *st;
    stop_cb_base *cb;
    static int pred(void *p) {
        auto *w = static_cast<exec_wait *>(p);
        return w->st->executing != w->cb;
    }
};
}  // namespace _vdetail

struct nostopstate_t {
    explicit nostopstate_t() = default;
};
inline constexpr nostopstate_t nostopstate{};

class stop_token {
public:
    stop_token() noexcept = default;
    bool stop_requested() const noexcept {
        if (!_st) return false;
        vrt_op(_st.get(), "stop_requested");
        _vdetail::atomic_section as;
        return _st->requested;
    }
    bool stop_possible() const noexcept { return static_cast<bool>(_st); }
    friend bool operator==(const stop_token &a, const stop_token &b) noexcept { return a._st == b._st; }

private:
    friend class stop_source;
    template <typename Cb>
    friend class stop_callback;
    explicit stop_token(::std::shared_ptr<_vdetail::stop_state> s) : _st(::std::move(s)) {}
    ::std::shared_ptr<_vdetail::stop_state> _st;
};

class stop_source {
public:
    stop_source() : _st(::std::make_shared<_vdetail::stop_state>()) {}
    explicit stop_source(nostopstate_t) noexcept {}
    stop_token get_token() const noexcept { return stop_token(_st); }
    bool stop_possible() const noexcept { return static_cast<bool>(_st); }
    bool stop_requested() const noexcept {
        if (!_st) return false;
        vrt_op(_st.get(), "stop_requested");
        _vdetail::atomic_section as;
        return _st->requested;
    }
    bool request_stop() noexcept { return _st ? _st->request_stop() : false; }

private:
    ::std::shared_ptr<_vdetail::stop_state> _st;
};

template <typename Cb>
class stop_callback : private _vdetail::stop_cb_base {
public:
    using callback_type = Cb;
    template <typename C>
    explicit stop_callback(const stop_token &tok, C &&cb) : _cb(::std::forward<C>(cb)), _st(tok._st) {
        init();
    }
    template <typename C>
    explicit stop_callback(stop_token &&tok, C &&cb) : _cb(::std::forward<C>(cb)), _st(::std::move(tok._st)) {
        init();
    }
    stop_callback(const stop_callback &) = delete;
    stop_callback &operator=(const stop_callback &) = delete;
    ~stop_callback() {
        if (!_st) return;
        vrt_op(_st.get(), "~stop_callback");
        vrt_atomic_begin();
        if (this->linked)
            _st->unlink(this);
        else if (_st->executing == this) {
            if (_st->exec_tid == vrt_self()) {
                if (this->destroyed_flag) *this->destroyed_flag = true;
            } else {
                _vdetail::exec_wait w{_st.get(), this};
                vrt_atomic_end();
                vrt_block_on(&_vdetail::exec_wait::pred, &w, _st.get(), "~stop_callback waits for running callback");
                vrt_atomic_begin();
            }
        }
        vrt_atomic_end();
    }

private:
    void init() {
        this->invoke = [](_vdetail::stop_cb_base *b) { static_cast<stop_callback *>(b)->_cb(); };
        if (!_st) return;
        vrt_op(_st.get(), "stop_callback()");
        vrt_atomic_begin();
        if (_st->requested) {
            vrt_atomic_end();
            _cb();
            _st.reset();
            return;
        } else {
            this->next = _st->head;
            this->prev = nullptr;
            if (_st->head) _st->head->prev = this;
            _st->head = this;
            this->linked = true;
        }
        vrt_atomic_end();
    }
    Cb _cb;
    ::std::shared_ptr<_vdetail::stop_state> _st;
};
template <typename Cb>
stop_callback(stop_token, Cb) -> stop_callback<Cb>;

}  // namespace std
}  // namespace cocls

namespace vstd = ::cocls::std;

#endif  // COCLS_VERIF
