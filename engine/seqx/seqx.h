// seqx.h - sequential exhaustive exploration driver (single TU per property; built with ASan+UBSan).
// The harness defines
//     void seqx_run(seqx::Runner &R, const std::string &tier);          enumerate and execute every case
//     void seqx_replay(seqx::Runner &R, const std::string &case_text);  execute exactly one case
// Cases are numbered in enumeration order and dealt round-robin to worker processes. A case that kills its process
// (sanitizer report, abort, reported deadlock) is recorded with its text and the worker is restarted behind it.
#pragma once
#include <fcntl.h>
#include <signal.h>
#include <stdarg.h>
#include <stdint.h>
#include <stdio.h>
#include <stdlib.h>
#include <string.h>
#include <sys/mman.h>
#include <sys/wait.h>
#include <time.h>
#include <unistd.h>

#include <algorithm>
#include <map>
#include <new>
#include <set>
#include <string>
#include <unordered_set>
#include <vector>

#include "../vrt/vrt_api.h"

extern "C" {
void seqx_backend_reset(void);
void seqx_set_now(int64_t ns);
int seqx_locked_count(void);
const char *__asan_get_report_description(void);
}

namespace seqx {

inline uint64_t g_news, g_deletes;
inline bool g_fail_next_new;  // fault injection: the next operator new throws std::bad_alloc (a harness sets it around one call)
inline uint64_t g_news_512;  // allocations of exactly 512 bytes (std::deque nodes of the thread-local ready queue)
inline uint64_t news() { return g_news; }
inline uint64_t deletes() { return g_deletes; }
inline int64_t live_allocs() { return (int64_t)g_news - (int64_t)g_deletes; }

// bookkeeping of the driver itself must not show up in the harness' allocation balance
struct NoCount {
    uint64_t n, d;
    NoCount() : n(g_news), d(g_deletes) {}
    uint64_t n512 = g_news_512;
    ~NoCount() {
        g_news = n;
        g_deletes = d;
        g_news_512 = n512;
    }
};

inline double wall() {
    struct timespec ts;
    clock_gettime(CLOCK_MONOTONIC, &ts);
    return ts.tv_sec + ts.tv_nsec * 1e-9;
}
inline uint64_t mix(uint64_t h, uint64_t v) {
    h ^= v + 0x9e3779b97f4a7c15ULL + (h << 6) + (h >> 2);
    h *= 0xbf58476d1ce4e5b9ULL;
    h ^= h >> 29;
    return h;
}
inline uint64_t hash_str(const std::string &s) {
    uint64_t h = 1469598103934665603ULL;
    for (unsigned char c : s) h = (h ^ c) * 1099511628211ULL;
    return h;
}

struct WorkerShm {
    char cur_case[8192];
    volatile uint64_t cur_idx;
    volatile int in_case;
    volatile uint64_t cases, transitions, nontrivial;
    volatile int timed_out;
    volatile int done;
};
inline WorkerShm *g_wshm;  // this worker's slot
inline int g_pipe = -1;
inline const char *g_keys_path;

class Runner;
inline Runner *g_runner;

class Runner {
public:
    int worker = 0, nworkers = 1;
    uint64_t start_idx = 0;
    double deadline = 1e18;
    bool replaying = false;
    uint64_t idx = 0;
    uint64_t deadline_tick = 0;
    std::unordered_set<uint64_t> states, outcomes;
    std::vector<std::string> samples;
    std::string cur;
    int case_fail = 0;
    int replay_failed = 0;
    std::string tier = "quick";

    bool stop() const { return g_wshm && g_wshm->timed_out; }
    // Advance the case counter; true if this worker must execute the case.
    bool next_case() {
        uint64_t i = idx++;
        if (replaying) return true;
        if ((int)(i % (uint64_t)nworkers) != worker || i < start_idx) return false;
        if ((++deadline_tick & 0x3ff) == 0 && wall() > deadline) g_wshm->timed_out = 1;  // every worker watches the deadline itself
        if (g_wshm->timed_out) return false;
        return true;
    }
    // replay support for harnesses whose cases are not parsed back from text: the enumeration is re-run and only the
    // case whose description equals replay_want is executed
    std::string replay_want;
    bool next_case_named(const std::string &desc) {
        if (replaying) return desc == replay_want;
        return next_case();
    }
    void begin(const std::string &desc) {
        NoCount nc;
        cur = desc;
        case_fail = 0;
        if (g_wshm) {
            strncpy(g_wshm->cur_case, desc.c_str(), sizeof g_wshm->cur_case - 1);
            g_wshm->cur_idx = idx - 1;
            g_wshm->in_case = 1;
        }
        seqx_backend_reset();
        if (replaying) printf("CASE %s\n", desc.c_str());
    }
    void end(bool nontrivial = true) {
        NoCount nc;
        if (g_wshm) {
            g_wshm->in_case = 0;
            g_wshm->cases++;
            if (nontrivial) g_wshm->nontrivial++;
        }
        if (samples.size() < 3 && (samples.empty() || cur.size() > samples.back().size())) samples.push_back(cur);
    }
    void step(uint64_t n = 1) {
        if (g_wshm) g_wshm->transitions += n;
    }
    void state(uint64_t key) {
        NoCount nc;
        states.insert(key);
    }
    void outcome(uint64_t key) {
        NoCount nc;
        outcomes.insert(key);
    }
    // non-fatal violation of the current case
    void fail(const char *sig, const char *fmt, ...) __attribute__((format(printf, 3, 4))) {
        char buf[1500];
        va_list ap;
        va_start(ap, fmt);
        vsnprintf(buf, sizeof buf, fmt, ap);
        va_end(ap);
        emit('V', sig, buf);
        case_fail++;
    }
    void note(const char *fmt, ...) __attribute__((format(printf, 2, 3))) {
        if (!replaying) return;
        va_list ap;
        va_start(ap, fmt);
        vprintf(fmt, ap);
        va_end(ap);
        printf("\n");
    }
    void emit(char kind, const char *sig, const char *detail) {
        NoCount nc;
        if (replaying) {
            printf("OUTCOME sig=%s\nDETAIL %s\n", sig, detail);
            fflush(stdout);
            replay_failed = 1;
            return;
        }
        std::string line;
        line += kind;
        line += '\t';
        line += sig;
        line += '\t';
        for (char c : cur) line += (c == '\t' || c == '\n') ? ' ' : c;
        line += '\t';
        for (const char *p = detail; *p; p++) line += (*p == '\t' || *p == '\n') ? ' ' : *p;
        line += '\n';
        if (g_pipe >= 0) (void)!write(g_pipe, line.data(), line.size());
    }
    void dump_keys() {
        if (!g_keys_path) return;
        int fd = open(g_keys_path, O_WRONLY | O_CREAT | O_APPEND, 0644);
        if (fd < 0) return;
        std::vector<uint64_t> v(states.begin(), states.end());
        uint64_t tag = 0xFFFFFFFFFFFFFFFFULL;
        for (uint64_t o : outcomes) {
            v.push_back(tag);
            v.push_back(o);
        }
        (void)!write(fd, v.data(), v.size() * 8);
        close(fd);
        std::string s;
        for (auto &x : samples) {
            s = "M\t-\t";
            for (char c : x) s += (c == '\t' || c == '\n') ? ' ' : c;
            s += "\t-\n";
            if (g_pipe >= 0) (void)!write(g_pipe, s.data(), s.size());
        }
    }
};

inline void die_with(const char *sig, const char *detail) {
    if (g_runner) {
        g_runner->emit('F', sig, detail);
        if (g_runner->replaying) _exit(1);
        g_runner->dump_keys();
    }
    _exit(3);
}

}  // namespace seqx

extern "C" void seqx_fail_hook(const char *sig, const char *detail, int fatal) {
    if (fatal) seqx::die_with(sig, detail);
    if (seqx::g_runner) seqx::g_runner->emit('V', sig, detail);
}
extern "C" void __asan_on_error() {
    const char *d = __asan_get_report_description();
    char sig[128];
    snprintf(sig, sizeof sig, "asan/%s", d ? d : "error");
    if (seqx::g_runner) {
        seqx::g_runner->emit('F', sig, "AddressSanitizer report (see worker log)");
        if (!seqx::g_runner->replaying) seqx::g_runner->dump_keys();
    }
}
extern "C" const char *__asan_default_options() { return "detect_leaks=0:exitcode=3:allocator_may_return_null=1:detect_stack_use_after_return=1"; }
extern "C" const char *__ubsan_default_options() { return "print_stacktrace=1"; }

// counting replacements of the global allocation functions
inline void *seqx_alloc(size_t n, size_t al) {
    if (seqx::g_fail_next_new) {
        seqx::g_fail_next_new = false;
        throw std::bad_alloc();
    }
    seqx::g_news++;
    if (n == 512) seqx::g_news_512++;
    void *p = al > 16 ? aligned_alloc(al, (n + al - 1) / al * al) : malloc(n ? n : 1);
    if (!p) throw std::bad_alloc();
    return p;
}
void *operator new(size_t n) { return seqx_alloc(n, 0); }
void *operator new[](size_t n) { return seqx_alloc(n, 0); }
void *operator new(size_t n, std::align_val_t a) { return seqx_alloc(n, (size_t)a); }
void *operator new[](size_t n, std::align_val_t a) { return seqx_alloc(n, (size_t)a); }
void operator delete(void *p) noexcept {
    if (p) seqx::g_deletes++;
    free(p);
}
void operator delete[](void *p) noexcept {
    if (p) seqx::g_deletes++;
    free(p);
}
void operator delete(void *p, size_t) noexcept {
    if (p) seqx::g_deletes++;
    free(p);
}
void operator delete[](void *p, size_t) noexcept {
    if (p) seqx::g_deletes++;
    free(p);
}
void operator delete(void *p, std::align_val_t) noexcept {
    if (p) seqx::g_deletes++;
    free(p);
}
void operator delete[](void *p, std::align_val_t) noexcept {
    if (p) seqx::g_deletes++;
    free(p);
}
void operator delete(void *p, size_t, std::align_val_t) noexcept {
    if (p) seqx::g_deletes++;
    free(p);
}
void operator delete[](void *p, size_t, std::align_val_t) noexcept {
    if (p) seqx::g_deletes++;
    free(p);
}

void seqx_run(seqx::Runner &R, const std::string &tier);
void seqx_replay(seqx::Runner &R, const std::string &case_text);

namespace seqx {

inline void abort_handler(int sig) {
    char d[64];
    snprintf(d, sizeof d, "signal %d", sig);
    die_with(sig == SIGABRT ? "crash/abort" : "crash/signal", d);
}

struct ViolRec {
    std::string sig, detail, c;
    uint64_t count = 0;
};

inline std::string json_escape(const std::string &s) {
    std::string o;
    for (unsigned char c : s) {
        if (c == '"' || c == '\\') {
            o += '\\';
            o += (char)c;
        } else if (c == '\n')
            o += "\\n";
        else if (c < 0x20) {
            char b[8];
            snprintf(b, sizeof b, "\\u%04x", c);
            o += b;
        } else
            o += (char)c;
    }
    return o;
}

inline int driver_main(int argc, char **argv) {
    std::string tier = "quick", json, replay;
    int workers = 16;
    double deadline_s = 600;
    for (int i = 1; i < argc; i++) {
        std::string a = argv[i];
        auto nxt = [&]() { return std::string(i + 1 < argc ? argv[++i] : ""); };
        if (a == "--tier")
            tier = nxt();
        else if (a == "--json")
            json = nxt();
        else if (a == "--replay")
            replay = nxt();
        else if (a == "--workers")
            workers = atoi(nxt().c_str());
        else if (a == "--deadline")
            deadline_s = atof(nxt().c_str());
    }
    signal(SIGABRT, abort_handler);
    signal(SIGSEGV, abort_handler);
    signal(SIGFPE, abort_handler);
    if (!replay.empty()) {
        FILE *f = fopen(replay.c_str(), "r");
        if (!f) return 2;
        std::string txt;
        char buf[4096];
        size_t n;
        while ((n = fread(buf, 1, sizeof buf, f)) > 0) txt.append(buf, n);
        fclose(f);
        size_t p = txt.find("\"case\"");
        if (p == std::string::npos) return 2;
        p = txt.find('"', txt.find(':', p));
        size_t e = p + 1;
        std::string c;
        while (e < txt.size() && txt[e] != '"') {
            if (txt[e] == '\\' && e + 1 < txt.size()) e++;
            c += txt[e++];
        }
        // the case runs in a child so that a death without a report from our hooks (UBSan, abort in foreign code)
        // still yields an OUTCOME line
        int pfd[2];
        if (pipe(pfd)) return 2;
        fflush(stdout);
        pid_t cp = fork();
        if (cp == 0) {
            close(pfd[0]);
            dup2(pfd[1], 1);
            dup2(pfd[1], 2);
            Runner R;
            R.replaying = true;
            R.tier = tier;
            g_runner = &R;
            setvbuf(stdout, nullptr, _IOLBF, 0);
            seqx_replay(R, c);
            if (!R.replay_failed) printf("OUTCOME sig=none\n");
            fflush(stdout);
            if (getenv("SEQX_LEAKCHECK")) exit(R.replay_failed ? 1 : 0);
            _exit(R.replay_failed ? 1 : 0);
        }
        close(pfd[1]);
        std::string out;
        while ((n = (size_t)read(pfd[0], buf, sizeof buf)) > 0 && n != (size_t)-1) out.append(buf, n);
        int st = 0;
        waitpid(cp, &st, 0);
        fwrite(out.data(), 1, out.size(), stdout);
        if (out.find("OUTCOME sig=") == std::string::npos) {
            const char *sig = out.find("runtime error") != std::string::npos ? "ubsan/runtime-error" : "crash/died";
            printf("OUTCOME sig=%s\n", sig);
            fflush(stdout);
            return 1;
        }
        if (out.find("OUTCOME sig=none") != std::string::npos && WIFEXITED(st) && WEXITSTATUS(st) == 0) return 0;
        return 1;
    }
    double t0 = wall();
    double deadline = t0 + deadline_s;
    if (workers > 64) workers = 64;
    WorkerShm *shm = (WorkerShm *)mmap(nullptr, sizeof(WorkerShm) * 64, PROT_READ | PROT_WRITE, MAP_SHARED | MAP_ANONYMOUS, -1, 0);
    memset(shm, 0, sizeof(WorkerShm) * 64);
    std::string base = json.empty() ? "/tmp/seqx" : json;
    std::map<std::string, ViolRec> viol;
    std::set<std::string> fatal_cases;
    std::vector<std::string> samples;
    std::unordered_set<uint64_t> states, outcomes;
    uint64_t cases = 0, transitions = 0, nontrivial = 0;
    bool timed_out = false, harness_error = false;
    std::vector<uint64_t> start(workers, 0);
    std::vector<bool> finished(workers, false);
    int restarts = 0;
    // run workers; restart one behind a fatal case
    struct Child {
        pid_t pid = -1;
        int fd = -1;
        std::string buf;
    };
    std::vector<Child> ch(workers);
    auto spawn = [&](int w) {
        int pfd[2];
        if (pipe(pfd)) exit(2);
        std::string keys = base + ".keys." + std::to_string(w);
        std::string logp = base + ".log." + std::to_string(w);
        pid_t p = fork();
        if (p == 0) {
            close(pfd[0]);
            int lf = open(logp.c_str(), O_WRONLY | O_CREAT | O_TRUNC, 0644);
            if (lf >= 0) {
                dup2(lf, 2);
                dup2(lf, 1);
            }
            static std::string kp;
            kp = keys;
            g_keys_path = kp.c_str();
            g_pipe = pfd[1];
            g_wshm = &shm[w];
            g_wshm->in_case = 0;
            Runner R;
            R.worker = w;
            R.nworkers = workers;
            R.start_idx = start[w];
            R.deadline = deadline;
            R.tier = tier;
            g_runner = &R;
            seqx_run(R, tier);
            R.dump_keys();
            g_wshm->done = 1;
            _exit(0);
        }
        close(pfd[1]);
        ch[w].pid = p;
        ch[w].fd = pfd[0];
        ch[w].buf.clear();
    };
    for (int w = 0; w < workers; w++) {
        unlink((base + ".keys." + std::to_string(w)).c_str());
        spawn(w);
    }
    auto handle_line = [&](const std::string &line) {
        // kind \t sig \t case \t detail
        std::vector<std::string> f;
        size_t s = 0;
        for (int k = 0; k < 3; k++) {
            size_t t = line.find('\t', s);
            if (t == std::string::npos) break;
            f.push_back(line.substr(s, t - s));
            s = t + 1;
        }
        f.push_back(line.substr(s));
        if (f.size() < 4) return;
        if (f[0] == "M") {
            if (samples.size() < 6) samples.push_back(f[2]);
            return;
        }
        if (f[0] == "F") fatal_cases.insert(f[2]);
        ViolRec &v = viol[f[1]];
        if (v.count == 0 || f[2].size() < v.c.size()) {
            v.sig = f[1];
            v.c = f[2];
            v.detail = f[3];
        }
        v.count++;
    };
    int live = workers;
    while (live > 0) {
        fd_set rs;
        FD_ZERO(&rs);
        int mx = -1;
        for (auto &c : ch)
            if (c.fd >= 0) {
                FD_SET(c.fd, &rs);
                mx = std::max(mx, c.fd);
            }
        if (mx < 0) break;
        struct timeval tv = {1, 0};
        int r = select(mx + 1, &rs, nullptr, nullptr, &tv);
        if (r < 0) continue;
        for (int w = 0; w < workers; w++) {
            Child &c = ch[w];
            if (c.fd < 0 || !FD_ISSET(c.fd, &rs)) continue;
            char b[65536];
            ssize_t n = read(c.fd, b, sizeof b);
            if (n > 0) {
                c.buf.append(b, (size_t)n);
                size_t p;
                while ((p = c.buf.find('\n')) != std::string::npos) {
                    handle_line(c.buf.substr(0, p));
                    c.buf.erase(0, p + 1);
                }
                continue;
            }
            // EOF: child gone
            close(c.fd);
            c.fd = -1;
            int st = 0;
            waitpid(c.pid, &st, 0);
            bool clean = WIFEXITED(st) && WEXITSTATUS(st) == 0 && shm[w].done;
            if (clean) {
                live--;
                continue;
            }
            // died inside a case
            if (shm[w].in_case) {
                std::string cs = shm[w].cur_case;
                for (char &c : cs)
                    if (c == '\t' || c == '\n') c = ' ';
                bool have = fatal_cases.count(cs) > 0;
                if (!have) {
                    // death without a report from our hooks (e.g. UBSan): take the first line of the worker log
                    std::string logp = base + ".log." + std::to_string(w), first = "process died";
                    FILE *lf = fopen(logp.c_str(), "r");
                    if (lf) {
                        char lb[512];
                        while (fgets(lb, sizeof lb, lf))
                            if (strstr(lb, "runtime error") || strstr(lb, "ERROR") || strstr(lb, "Assertion") || strstr(lb, "terminate")) {
                                first = lb;
                                break;
                            }
                        fclose(lf);
                    }
                    std::string sig = first.find("runtime error") != std::string::npos ? "ubsan/runtime-error" : "crash/died";
                    handle_line("F\t" + sig + "\t" + cs + "\t" + first);
                }
                start[w] = shm[w].cur_idx + 1;
                shm[w].in_case = 0;
                restarts++;
                if (restarts > 3000) {
                    // thousands of cases die: the property is plainly violated; stop here with what was recorded
                    // (reported as not exhaustive) instead of grinding through the rest one process per case
                    timed_out = true;
                    for (int k = 0; k < workers; k++)
                        if (ch[k].fd >= 0) {
                            kill(ch[k].pid, SIGKILL);
                            close(ch[k].fd);
                            ch[k].fd = -1;
                            int st2 = 0;
                            waitpid(ch[k].pid, &st2, 0);
                        }
                    live = 0;
                    break;
                }
                spawn(w);
            } else {
                harness_error = true;
                fprintf(stderr, "seqx: worker %d died outside a case (status %d)\n", w, st);
                live--;
            }
        }
    }
    for (int w = 0; w < workers; w++) {
        cases += shm[w].cases;
        transitions += shm[w].transitions;
        nontrivial += shm[w].nontrivial;
        if (shm[w].timed_out) timed_out = true;
        std::string keys = base + ".keys." + std::to_string(w);
        FILE *f = fopen(keys.c_str(), "rb");
        if (f) {
            uint64_t k;
            while (fread(&k, 8, 1, f) == 1) {
                if (k == 0xFFFFFFFFFFFFFFFFULL) {
                    if (fread(&k, 8, 1, f) == 1) outcomes.insert(k);
                } else
                    states.insert(k);
            }
            fclose(f);
            unlink(keys.c_str());
        }
        unlink((base + ".log." + std::to_string(w)).c_str());
    }
    FILE *f = json.empty() ? stdout : fopen(json.c_str(), "w");
    fprintf(f, "{\n \"cases\": %lu,\n \"states\": %lu,\n \"transitions\": %lu,\n \"distinct_nontrivial\": %lu,\n \"distinct_outcomes\": %lu,\n",
            (unsigned long)cases, (unsigned long)std::max<size_t>(states.size(), 1), (unsigned long)std::max<uint64_t>(transitions, 1), (unsigned long)nontrivial,
            (unsigned long)outcomes.size());
    fprintf(f, " \"exhaustive\": %s,\n \"timed_out\": %s,\n \"worker_restarts\": %d,\n \"samples\": [", (!timed_out && !harness_error) ? "true" : "false", timed_out ? "true" : "false",
            restarts);
    for (size_t i = 0; i < samples.size(); i++) fprintf(f, "%s\"%s\"", i ? ", " : "", json_escape(samples[i]).c_str());
    fprintf(f, "],\n \"violations\": [");
    bool first = true;
    for (auto &kv : viol) {
        fprintf(f, "%s\n  {\"sig\": \"%s\", \"count\": %lu, \"case\": \"%s\", \"detail\": \"%s\"}", first ? "" : ",", json_escape(kv.second.sig).c_str(),
                (unsigned long)kv.second.count, json_escape(kv.second.c).c_str(), json_escape(kv.second.detail).c_str());
        first = false;
    }
    fprintf(f, "],\n \"wall_s\": %.3f\n}\n", wall() - t0);
    if (!json.empty()) fclose(f);
    if (harness_error) return 2;
    return viol.empty() ? 0 : 1;
}

}  // namespace seqx

#define SEQX_MAIN() \
    int main(int argc, char **argv) { return seqx::driver_main(argc, argv); }
