// seq_backend.cpp - vrt_api.h for single-threaded exploration (seqx): blocking that could only be released by
// another thread is reported as a deadlock; time is virtual and jumps to the deadline of a timed wait.
#include <stdarg.h>
#include <stdio.h>
#include <stdlib.h>
#include <string.h>

#include <map>

#include "../vrt/vrt_api.h"

extern "C" void seqx_fail_hook(const char *sig, const char *detail, int fatal);

static int64_t g_now = 1000000000000000LL;
static int64_t g_scratch[64];
static std::map<const void *, int> &locked() {
    static std::map<const void *, int> m;
    return m;
}
static void failf(const char *sig, const char *fmt, ...) {
    char buf[1024];
    va_list ap;
    va_start(ap, fmt);
    vsnprintf(buf, sizeof buf, fmt, ap);
    va_end(ap);
    seqx_fail_hook(sig, buf, 1);
    abort();
}

extern "C" {
void seqx_backend_reset(void) {
    locked().clear();
    g_now = 1000000000000000LL;
    memset(g_scratch, 0, sizeof g_scratch);
}
void seqx_set_now(int64_t ns) { g_now = ns; }
int seqx_locked_count(void) { return (int)locked().size(); }

void vrt_mutex_destroy(void *m) {
    if (locked().count(m)) failf("mutex/destroyed-while-locked", "std::mutex %p destroyed while locked", m);
}
void vrt_mutex_lock(void *m) {
    if (locked().count(m)) failf("deadlock/self-relock", "thread locks std::mutex %p which it already owns (non-recursive): deadlock", m);
    locked()[m] = 1;
}
int vrt_mutex_trylock(void *m) {
    if (locked().count(m)) return 0;
    locked()[m] = 1;
    return 1;
}
void vrt_mutex_unlock(void *m) {
    if (!locked().count(m)) failf("mutex/unlock-not-owned", "unlock of std::mutex %p that is not locked", m);
    locked().erase(m);
}
void vrt_cv_destroy(void *) {}
int vrt_cv_wait(void *cv, void *m, int64_t deadline_ns) {
    if (deadline_ns == INT64_MAX) failf("deadlock/cv-wait", "untimed condition_variable wait on %p with no other thread to notify it", cv);
    vrt_mutex_unlock(m);
    if (deadline_ns > g_now) g_now = deadline_ns;
    vrt_mutex_lock(m);
    return 1;
}
void vrt_cv_notify(void *, int) {}
int64_t vrt_now_ns(void) { return g_now; }
// the single thread is busy for a while: virtual time passes although nobody sleeps (sequential harnesses only)
void seqx_busy_ns(int64_t ns) { g_now += ns; }
int vrt_early_clock_advances(void) { return 0; }
int vrt_thread_create(void (*)(void *), void *) {
    failf("harness/thread-in-seq-mode", "std::thread created in a sequential harness");
    return -1;
}
void vrt_thread_join(int) {}
void vrt_thread_detach(int) {}
int vrt_self(void) { return 0; }
unsigned vrt_hw_concurrency(void) { return 2; }
void vrt_atomic_wait(const volatile void *addr, int size, uint64_t old, int) {
    uint64_t v = 0;
    memcpy(&v, (const void *)addr, (size_t)size);
    if (v == old) failf("deadlock/atomic-wait", "atomic wait on %p would block forever (no other thread)", (const void *)addr);
}
void vrt_atomic_notify(const volatile void *, int) {}
void vrt_op(const void *, const char *) {}
void vrt_block_on(int (*pred)(void *), void *arg, const void *, const char *what) {
    if (!pred(arg)) failf("deadlock/block", "blocking operation '%s' can never proceed", what ? what : "?");
}
void vrt_atomic_begin(void) {}
void vrt_atomic_end(void) {}
void vrt_yield(void) {}
int vrt_choose(int, int) { return 0; }
void vrt_fail(const char *sig, const char *fmt, ...) {
    char buf[1500];
    va_list ap;
    va_start(ap, fmt);
    vsnprintf(buf, sizeof buf, fmt, ap);
    va_end(ap);
    seqx_fail_hook(sig, buf, 1);
    abort();
}
void vrt_log(const char *, ...) {}
void vrt_label(const char *) {}
void vrt_outcome(const char *, ...) {}
uint64_t vrt_alloc_count(void) { return 0; }
uint64_t vrt_live_blocks(void) { return 0; }
int vrt_active(void) { return 1; }
int64_t *vrt_scratch(void) { return g_scratch; }
void __tsan_atomic_thread_fence(int) {}
void vrt_register(const char *, vrt_scenario_fn, void *) {}
int vrt_main(int, char **) { return 2; }
}
