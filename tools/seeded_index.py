#!/usr/bin/env python3
"""Regenerates seeded/INDEX.md from seeded/*/meta.json"""
import glob, json, os
ROOT = os.path.dirname(os.path.dirname(os.path.abspath(__file__)))
rows = []
for m in sorted(glob.glob(os.path.join(ROOT, 'seeded', '*', 'meta.json'))):
    d = json.load(open(m))
    rows.append(d)
with open(os.path.join(ROOT, 'seeded', 'INDEX.md'), 'w') as f:
    f.write('# Seeded property-breaking changes\n\n'
            'Each was written by an independent sub-agent that saw only the text of one property and a scratch worktree of the repository;\n'
            'each compiles, passes the 15 repository tests, and comes with a demonstration (demo.cpp) that passes on the unchanged tree and\n'
            'fails with the change. Confirmed with `tools/eval_mutant.sh seeded/<id>/patch.diff seeded/<id>/demo.cpp <property>`\n'
            '(the change is applied to a scratch copy, never to /repo).\n\n'
            '| id | property | needs, in order to manifest | caught by |\n|---|---|---|---|\n')
    for d in rows:
        f.write(f"| {d['id']} | {d['breaks_property']} | {d['needs_to_manifest']} | {d['caught_by']} |\n")
    missed = [d for d in rows if 'missed by the first' in d['caught_by']]
    f.write(f"\n{len(rows)} changes kept; {len(missed)} of them were missed by the check as first built and led to a strengthening of the check "
            "(stated in the 'caught by' column); all are caught now.\n")
print(len(rows), 'seeded changes indexed')
