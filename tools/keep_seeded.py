#!/usr/bin/env python3
"""keep_seeded.py <seed-id> <mutant-dir> <property> <caught_by> <needs...>   copies patch.diff, demo.cpp, README.txt and writes meta.json"""
import json, os, shutil, sys
sid, src, prop, caught = sys.argv[1:5]
needs = ' '.join(sys.argv[5:])
dst = os.path.join(os.path.dirname(os.path.dirname(os.path.abspath(__file__))), 'seeded', sid)
os.makedirs(dst, exist_ok=True)
for f in ('patch.diff', 'demo.cpp', 'README.txt'):
    if os.path.exists(os.path.join(src, f)):
        shutil.copy(os.path.join(src, f), os.path.join(dst, f))
json.dump(dict(id=sid, breaks_property=prop, written_by='independent sub-agent given only the property text and a scratch worktree',
               needs_to_manifest=needs, caught_by=caught,
               confirmed='tools/eval_mutant.sh patch.diff demo.cpp ' + prop + ': patch applies to HEAD of /repo, the 15 repository tests pass with it, '
                         'demo exits 0 without and non-zero with it, quick check result as stated in caught_by'),
          open(os.path.join(dst, 'meta.json'), 'w'), indent=1)
print('kept', dst)
