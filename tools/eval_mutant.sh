#!/bin/bash
# eval_mutant.sh <patch.diff> <demo.cpp|-> <PROP> [PROP...]
# Confirms a seeded change: (1) applies to a scratch copy of /repo, (2) the repo's own tests still pass with it,
# (3) the demonstration passes without and fails with it (if a demo is given), (4) runs the quick checks of the given
# properties against the scratch copy (VERIF_REPO_ROOT) and reports their exit codes. Removes the scratch copy.
set -u
PATCH=$(readlink -f "$1"); DEMO="$2"; shift 2
W=$(mktemp -d /tmp/mutant.XXXXXX)
trap 'rm -rf "$W"' EXIT
git -C /repo archive HEAD | tar -x -C "$W"
cd "$W" && git init -q . >/dev/null 2>&1 && git apply --whitespace=nowarn "$PATCH" || { echo "PATCH DOES NOT APPLY"; exit 3; }
echo "== repo tests with the change"
/verif/tools/repo_tests.sh "$W" | tail -3
if [ "$DEMO" != "-" ]; then
  DEMO=$(readlink -f "$DEMO")
  echo "== demo without / with the change"
  g++ -std=c++20 -O1 -g -I/repo/src "$DEMO" -o "$W/demo_clean" -lpthread 2>/dev/null && (timeout 120 "$W/demo_clean" >/dev/null 2>&1; echo "clean exit=$?")
  g++ -std=c++20 -O1 -g -I"$W/src" "$DEMO" -o "$W/demo_mut" -lpthread 2>/dev/null && (timeout 120 "$W/demo_mut" >/dev/null 2>&1; echo "mutant exit=$?")
fi
cd /verif
for P in "$@"; do
  echo "== check $P (quick) against the change"
  VERIF_REPO_ROOT="$W" VERIF_BUILD_DIR="$W/vbuild" VERIF_EVIDENCE_DIR="$W/evidence" python3 tools/check.py "$P" --tier quick 2>&1 | grep -E "^VIOLATION|signature:|detail:|quick:|HARNESS|KNOWN" | head -12
  echo "exit=${PIPESTATUS[0]}"
done
