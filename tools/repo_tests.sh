#!/bin/bash
# Builds the repository's own test-suite (guard off: the repo has no hooks) from SRC into a scratch
# build directory outside /repo and /verif, runs it, removes the build. Exit code = ctest's.
SRC=${1:-/repo}
BLD=$(mktemp -d /tmp/cocls_tests.XXXXXX)
trap 'rm -rf "$BLD"' EXIT
cmake -S "$SRC" -B "$BLD" -G Ninja -DCMAKE_BUILD_TYPE=Release >"$BLD/cmake.log" 2>&1 || { tail -20 "$BLD/cmake.log"; exit 2; }
cmake --build "$BLD" -j16 >"$BLD/build.log" 2>&1 || { tail -30 "$BLD/build.log"; exit 2; }
ctest --test-dir "$BLD" -j8 --timeout 900 2>&1 | tail -25
exit ${PIPESTATUS[0]}
