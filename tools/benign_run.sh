#!/bin/bash
# benign_run.sh <patch.diff>... [-- ID...]: applies behaviour-preserving changes to a scratch copy of /repo (never to /repo) and runs the
# quick checks against the copy; any exit code other than 0 is a false alarm (exit 1) or a harness that depends on an
# implementation detail (exit 2). Prints one line per check.
cd "$(dirname "$(readlink -f "$0")")/.."
PATCHES=(); IDS=()
while [ $# -gt 0 ]; do if [ "$1" = "--" ]; then shift; IDS=("$@"); break; fi; PATCHES+=("$(readlink -f "$1")"); shift; done
[ ${#IDS[@]} -eq 0 ] && IDS=(C01 C02 C03 C04 C05 C06 C07 C08 C09 C10 C11 C12 C13 C14 C15 C16 C17 C18 C19 C20)
W=$(mktemp -d /tmp/benign_run.XXXXXX)
trap 'rm -rf "$W"' EXIT
git -C /repo archive HEAD | tar -x -C "$W"
(cd "$W" && git init -q . >/dev/null 2>&1 && for p in "${PATCHES[@]}"; do git apply --whitespace=nowarn "$p" || { echo "PATCH-DOES-NOT-APPLY $p"; exit 3; }; done) || exit 3
bad=0
for P in "${IDS[@]}"; do
  out=$(VERIF_REPO_ROOT="$W" VERIF_BUILD_DIR="$W/vbuild" VERIF_EVIDENCE_DIR="$W/evidence" python3 tools/check.py "$P" --tier quick 2>&1); rc=$?
  echo "$P exit=$rc $(echo "$out" | grep -E "^$P quick:" | sed 's/.*exhaustive/exhaustive/')"
  if [ $rc -ne 0 ]; then bad=1; echo "$out" | grep -E "signature:|scenario:|detail:|HARNESS|error" | head -12; fi
done
exit $bad
