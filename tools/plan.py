"""plan.py - what each property's check runs, per tier (see DESIGN.md section 5)."""

BUDGET = {'quick': 300.0, 'thorough': 900.0}

DEFAULT_RULE = ('vrt: every execution is one schedule of the real code under the serialising scheduler, enumerated depth-first up to the '
                'stated deviation bound (preemptions, early timer, value choices) with an HB-prefix cache; states = distinct '
                'happens-before prefixes (Mazurkiewicz-trace hashes) expanded; distinct_nontrivial = distinct complete traces in which '
                'at least two threads operated on the same synchronisation object. seqx: every history/program/configuration up to the '
                'stated depth executed on fresh real objects against a reference model; states = distinct canonical keys; '
                'distinct_nontrivial = cases that left the initial state.')
RULES = {}
EXPLAIN = {}
DEFAULT_ASSUMPTIONS = [
    'interleavings are sequentially consistent: relaxed atomics return the latest value in the explored interleaving; missing '
    'release/acquire is judged separately by the C++20 happens-before race oracle',
    'code outside the instrumented TU (libstdc++.so, libc) is invisible to the race oracle (can hide, never invent a race)',
    'quick tier: compare_exchange_weak never fails spuriously and condition variables do not wake spuriously; the thorough tiers of C02 C07 C08 C11 C12 also explore both as deviations',
    'harness built with g++ 12.2 -O1 -DNDEBUG -D_GLIBCXX_ASSERTIONS against the current /repo/src headers',
]
ASSUMPTIONS = {}


def vrt(tu, scenarios, bound=2, unbounded=False, race_oracle='user', workers=16, ignore=None, max_viol=None, spurious=False, cache_bits=None):
    return dict(kind='vrt', tu=tu, scenarios=scenarios, bound=bound, unbounded=unbounded, race_oracle=race_oracle, workers=workers,
                ignore=ignore or [], max_viol=max_viol, spurious=spurious, cache_bits=cache_bits)


def seq(tu, args=None, ignore=None, tier=None):
    # tier: depth set the sequential harness uses when it differs from the tier of the check (quick checks of cheap properties
    # run the thorough depth)
    return dict(kind='seq', tu=tu, args=args or [], ignore=ignore or [], tier=tier)


def jobs(pid, tier):
    q = tier == 'quick'
    if pid == 'C07':
        if q:
            return [vrt('C07', [r'mx2_.*_r1', r'mxpool_.*', r'mxown.*', r'mxcb.*'], bound=3, workers=4, ignore=[r'^mutex/fifo']),
                    vrt('C07', [r'mx2_(co-co|co-bl)_(dis-dis|dtor-awt|awt-awt|dis-move)_r2'], bound=2, workers=4, ignore=[r'^mutex/fifo']),
                    vrt('C07', [r'mx3_f[012]_r[023]'], bound=2, workers=8, ignore=[r'^mutex/fifo'])]
        return [vrt('C07', [r'mx2_.*_r1'], unbounded=True, workers=4, ignore=[r'^mutex/fifo']),
                vrt('C07', [r'mxpool_.*', r'mxown.*', r'mxcb.*'], bound=3, workers=4, ignore=[r'^mutex/fifo']),
                vrt('C07', [r'mx2_.*_r2'], bound=3, workers=4, ignore=[r'^mutex/fifo']),
                vrt('C07', [r'mx3_.*'], bound=3, workers=16, ignore=[r'^mutex/fifo']),
                vrt('C07', [r'mx4_.*'], bound=2, workers=16, ignore=[r'^mutex/fifo']),
                vrt('C07', [r'mx2_.*_r1'], bound=2, workers=4, ignore=[r'^mutex/fifo'], spurious=True)]
    if pid == 'C08':
        if q:
            return [vrt('C07', [r'mx2_.*_r1', r'mxpool_.*', r'mxown.*', r'mxcb.*'], bound=3, workers=4),
                    vrt('C07', [r'mx3_f[012]_r[0123]', r'mx4_f0_r0'], bound=2, workers=8)]
        return [vrt('C07', [r'mx2_.*_r1'], unbounded=True, workers=4),
                vrt('C07', [r'mxpool_.*', r'mxown.*', r'mxcb.*'], bound=3, workers=4),
                vrt('C07', [r'mx3_.*'], bound=3, workers=16),
                vrt('C07', [r'mx4_.*'], bound=2, workers=16),
                vrt('C07', [r'mx2_.*_r1'], bound=2, workers=4, spurious=True)]
    if pid == 'C01':
        if q:
            return [vrt('C01', [r'once_(int|counted)_[a-z]+-[a-z]+_(none|wait)', r'once_(int|counted|void)_(nop|assign)_.*',
                                r'once_(moveonly|ref|void)_(val-val|val-exc|val-mvcall|drop-mvdie|exc-mvdie|val-start|start-start)_(coro|hasv|cohasv)',
                                r'once_(int|counted)_(val-exc|exc-drop|exc-start)_cohasv', r'once_ctorform_.*'], bound=2, workers=2)]
        return [vrt('C01', [r'once_[a-z]+_[a-z]+-[a-z]+_none', r'once_[a-z]+_(nop|assign)_.*', r'once_ctorform_.*'], unbounded=True, workers=2),
                vrt('C01', [r'once_[a-z]+_[a-z]+-[a-z]+_(wait|coro|hasv|cohasv)'], bound=3, workers=4),
                vrt('C01', [r'once_counted_[a-z]+-[a-z]+-[a-z]+_(none|wait|coro)'], bound=2, workers=4),
                vrt('C01', [r'once_int_[a-z]+-[a-z]+-[a-z]+_(none|wait|coro)'], bound=3, workers=8),
                vrt('C01', [r'once_(moveonly|ref|void)_(val-val-val|val-exc-drop|val-mvcall-mvdie|exc-assign-start|drop-mvdie-start|val-start-start)_.*',
                            r'once_(int|counted)_(val-exc-drop|val-mvcall-mvdie|exc-assign-start|val-start-start)_(hasv|cohasv)'], bound=3, workers=8)]
    if pid == 'C02':
        if q:
            return [vrt('C02', [r'wake1_.*'], unbounded=True, workers=2),
                    vrt('C02', [r'wake2_.*'], bound=3, workers=4)]
        return [vrt('C02', [r'wake1_.*'], unbounded=True, workers=2),
                vrt('C02', [r'wake2_.*'], bound=3, workers=4),
                vrt('C02', [r'wake3_.*'], bound=3, workers=16),
                vrt('C02', [r'wake[12]_.*'], bound=2, workers=4, spurious=True)]
    if pid == 'C03':
        R = dict(race_oracle=True)
        if q:
            return [vrt('C01', [r'once_counted_(val-val|val-exc|exc-drop|val-mvdie)_(wait|coro|hasv)', r'once_(int|ref)_val-exc_wait'], bound=2, workers=2, **R),
                    vrt('C02', [r'wake1_.*_(val|exc|async)', r'wake2_(coro-poll|wait-cb|hasv-sync|coro-coro|cb-cb)_(val|exc|drop|async)'], bound=2, workers=2, **R),
                    vrt('C07', [r'mx2_.*_(dis-dis|dtor-awt|awt-move|move-move)_r1', r'mx3_f[012]_r[03]', r'mxpool_.*', r'mxown_.*'], bound=2, workers=4, **R),
                    vrt('C09', [r'q_p1_c2_.*', r'q_p2_c1_(block|coro)', r'lq_l1_p2_.*', r'lq_l1_unblock_.*', r'l?q_observer_.*'], bound=2, workers=4, **R),
                    vrt('C11', [r'pool_w[12]_(coawait|runfn|runfnbig|detached|detachedbig|current)_(stop|selfstop)', r'pool_w2_(coawait-runfn|runfnbig-detached)_stop',
                                 r'pool_w[12]_(coawait|runfn|detached)_racestop'], bound=2, workers=2, **R),
                    vrt('C12', [r'sch_(thread|pool)_(5-10|10-5)(_cancel0)?', r'sch_start-remote_.*', r'sch_two-workers'], bound=2, workers=4, **R),
                    vrt('C16', [r'pub1_.*', r'pub2_all_(coro-block|coro-poll)_pub-batch2-close', r'pubmt1_.*', r'pubmt2_coro-coro', r'pubcopy_.*', r'pubbound_.*'], bound=2, workers=4, **R),
                    vrt('C17', [r'sf1_.*', r'sf2_promfn_val_(wait-coro|coro-drop|copydrop-poll)_.*'], bound=2, workers=2, **R),
                    vrt('C19', [r'mtsafe_t2_.*'], bound=2, workers=4, **R),
                    vrt('C04', [r'async_.*_d[12](_throw)?'], bound=2, workers=2, **R),
                    vrt('C13', [r'gen_.*', r'aggr_(next|callwait)'], bound=2, workers=4, **R),
                    vrt('C15', [r'sig_.*'], bound=2, workers=4, **R),
                    vrt('C18', [r'cb_.*'], unbounded=True, workers=2, **R)]
        return [vrt('C01', [r'once_[a-z]+_[a-z]+-[a-z]+_.*'], bound=3, workers=4, **R),
                vrt('C02', [r'wake[12]_.*'], bound=3, workers=4, **R),
                vrt('C02', [r'wake3_.*'], bound=2, workers=16, **R),
                vrt('C07', [r'mx[23]_.*'], bound=3, workers=8, **R),
                vrt('C09', [r'q_p1_.*', r'q_p2_c1_.*', r'lq_.*', r'q_observer_.*'], bound=3, workers=8, **R),
                vrt('C11', [r'pool_w[12]_(coawait|runfn|runfnbig|detached|detachedbig|current)(-(coawait|runfn|runfnbig|detached|detachedbig|current))?_(stop|dtor|selfstop|racestop)'], bound=2, workers=8, **R),
                vrt('C12', [r'sch_.*'], bound=2, workers=8, **R),
                vrt('C16', [r'pub1_.*', r'pub2_(?!.*poll-poll).*', r'pubmt.*', r'pubcopy_.*', r'pubbound_.*'], bound=2, workers=8, **R),
                vrt('C17', [r'sf.*'], bound=2, workers=8, **R),
                vrt('C19', [r'mtsafe_.*'], bound=3, workers=8, **R),
                vrt('C04', [r'async_.*'], bound=3, workers=4, **R),
                vrt('C13', [r'.*'], bound=3, workers=8, **R),
                vrt('C15', [r'sig_.*'], bound=3, workers=8, **R),
                vrt('C18', [r'cb_.*'], unbounded=True, workers=2, **R)]
    if pid == 'C17':
        if q:
            return [vrt('C17', [r'sf1_.*', r'sf_copy_before_init', r'sf_init_copy_getpromise', r'sf_reference_identity'], bound=2, workers=2),
                    vrt('C17', [r'sf2_(promfn|futfn)_(val|drop)_(wait-coro|coro-drop|drop-drop|copydrop-poll|coro-coro|wait-drop)_.*'], bound=2, workers=2),
                    vrt('C17', [r'sf1_(promfn|futfn|getpromise|promfn-thread|futfn-thread|shift|reuse|coro)_(val|drop)_(wait|coro|drop|cbfn)_.*'], bound=3, workers=4)]
        return [vrt('C17', [r'sf1_.*', r'sf_copy_before_init', r'sf_init_copy_getpromise', r'sf_reference_identity'], unbounded=True, workers=2),
                vrt('C17', [r'sf2_.*'], bound=3, workers=4)]
    if pid == 'C11':
        OKK = r'(coawait|runfn|runfnbig|detached|detachedbig|current)'
        LOST = r'(coawaitfut|runasync|resumesp)'
        if q:
            return [vrt('C11', [rf'pool_w[12]_{OKK}_(stop|dtor|selfstop|racestop)', r'pool_w2_dependent_.*', r'pool_w[12]_live_.*', r'pool_w[12]_selfdestroy.*', r'pool_w1_addworker_.*', r'pool_w2_addworker_j[01]_stop'], bound=2, workers=2),
                    vrt('C11', [rf'pool_w1_{OKK}-{OKK}_(stop|dtor|selfstop)', r'pool_w2_(coawait-runfn|coawait-detachedbig|runfnbig-detached|coawait-coawait)_(stop|selfstop)', r'pool_w1_(coawait-runfn|detached-detachedbig)_racestop', r'pool3_w1_coawait-runfn-detached_(stop|racestop)'], bound=2, workers=4),
                    vrt('C11', [rf'pool_w1_{LOST}_(stop|dtor)'], bound=2, workers=2, max_viol=10000000)]
        return [vrt('C11', [rf'pool_w[123]_{OKK}_(stop|dtor|selfstop|racestop)', r'pool_w[23]_dependent_.*', r'pool_w[12]_live_.*', r'pool_w[12]_selfdestroy.*', r'pool_w[12]_addworker_.*'], bound=3, workers=2),
                vrt('C11', [rf'pool_w[12]_{OKK}-{OKK}_(stop|dtor|selfstop|racestop)'], bound=3, workers=8),
                vrt('C11', [rf'pool_w3_{OKK}-{OKK}_(stop|selfstop)'], bound=1, workers=8),
                vrt('C11', [r'pool3_w[12]_.*'], bound=2, workers=8), vrt('C11', [r'pool3_w3_.*'], bound=1, workers=8),
                vrt('C11', [rf'pool_w[12]_{OKK}_(stop|dtor|selfstop|racestop)', r'pool_w2_dependent_.*'], bound=2, workers=4, spurious=True),
                vrt('C11', [rf'pool_w[12]_{LOST}_(stop|dtor|selfstop)', rf'pool_w1_{OKK}-{LOST}_stop'], bound=2, workers=4, max_viol=10000000)]
    if pid == 'C04':
        if q:
            return [seq('C04', tier='thorough'), vrt('C04', [r'async_.*'], unbounded=True, workers=4)]
        return [seq('C04'), vrt('C04', [r'async_.*'], unbounded=True, workers=4)]
    if pid == 'C05':
        return [seq('C05')]
    if pid == 'C13':
        if q:
            return [seq('C13', tier='thorough'), vrt('C13', [r'gen_.*'], unbounded=True, workers=4)]
        return [seq('C13'), vrt('C13', [r'gen_.*'], unbounded=True, workers=4)]
    if pid == 'C14':
        if q:
            return [seq('C14', tier='thorough'), vrt('C13', [r'aggr_.*'], bound=3, workers=8)]
        return [seq('C14'), vrt('C13', [r'aggr_.*'], bound=3, workers=8)]
    if pid == 'C15':
        if q:
            return [seq('C15', tier='thorough'), vrt('C15', [r'sig_l1_.*', r'sig_hookup_.*'], unbounded=True, workers=4), vrt('C15', [r'sig_l2_.*'], bound=3, workers=8)]
        return [seq('C15'), vrt('C15', [r'sig_l1_.*', r'sig_hookup_.*'], unbounded=True, workers=4), vrt('C15', [r'sig_l2_.*'], bound=3, workers=8)]
    if pid == 'C18':
        return [seq('C18'), vrt('C18', [r'cb_.*'], unbounded=True, workers=2)]
    if pid == 'C19':
        if q:
            return [seq('C19'), vrt('C19', [r'mtsafe_t2_.*', r'mtsafe_t3_r1_.*'], bound=2, workers=4, race_oracle=True)]
        return [seq('C19'), vrt('C19', [r'mtsafe_t2_.*'], unbounded=True, workers=4, race_oracle=True),
                vrt('C19', [r'mtsafe_t3_.*'], bound=3, workers=8, race_oracle=True)]
    if pid == 'C20':
        if q:
            return [seq('C20'), vrt('C20', [r'noalloc_.*'], bound=2, workers=4)]
        return [seq('C20'), vrt('C20', [r'noalloc_.*'], bound=3, workers=8)]
    if pid == 'C10':
        if q:
            return [seq('C10'), vrt('C09', [r'lq_.*'], bound=2, workers=4)]
        return [seq('C10'), vrt('C09', [r'lq_.*'], bound=3, workers=8)]
    if pid == 'C09':
        if q:
            return [seq('C09'), vrt('C09', [r'q_p1_.*', r'q_p2_c1_(block|coro)', r'q_observer_.*'], bound=2, workers=4)]
        return [seq('C09'), vrt('C09', [r'q_p1_.*', r'q_p2_c1_.*'], bound=3, workers=8),
                vrt('C09', [r'q_p2_c2_.*'], bound=2, workers=16, cache_bits=25),
                vrt('C09', [r'q_p3_.*'], bound=1, workers=16, cache_bits=25)]
    if pid == 'C12':
        if q:
            return [seq('C12'), vrt('C12', [r'sch_.*'], bound=2, workers=4)]
        return [seq('C12'), vrt('C12', [r'sch_.*'], bound=3, workers=8), vrt('C12', [r'sch_.*'], bound=2, workers=8, spurious=True)]
    if pid == 'C16':
        if q:
            return [seq('C16'), vrt('C16', [r'pub1_.*', r'pubmt1_.*', r'pubmt2_coro-coro', r'pubcopy_.*', r'pubbound_.*'], bound=2, workers=2),
                    vrt('C16', [r'pub2_all_(coro-block|coro-coro|block-poll)_pub-batch2-close', r'pub2_recent_coro-block_pub-pub-close'], bound=2, workers=8)]
        return [seq('C16'), vrt('C16', [r'pub1_.*', r'pubmt1_.*', r'pubbound_.*'], bound=3, workers=2), vrt('C16', [r'pub2_(?!.*poll-poll).*', r'pubmt2_.*'], bound=2, workers=8)]
    if pid == 'C06':
        return [seq('C06')]
    if pid == 'RACEALL':
        # maintenance sweep, not a registered check: every scenario of every threaded harness with the user-side race oracle
        # (finds harness code that is itself racy before a property's check would report it as the library's fault)
        b = 1 if q else 2
        return [vrt(tu, [r'.*'], bound=b, workers=2, max_viol=50) for tu in
                ('C01', 'C02', 'C04', 'C07', 'C09', 'C11', 'C12', 'C13', 'C15', 'C16', 'C17', 'C18', 'C19', 'C20')]
    return []
