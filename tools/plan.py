"""plan.py - what each property's check runs, per tier (see DESIGN.md section 5)."""

BUDGET = {'quick': 240.0, 'thorough': 900.0}

DEFAULT_RULE = ('vrt: every execution is one schedule of the real code under the serialising scheduler, enumerated depth-first up to the '
                'stated deviation bound (preemptions, early timer, value choices) with an HB-prefix cache; states = distinct '
                'happens-before prefixes (Mazurkiewicz-trace hashes) expanded; distinct_nontrivial = distinct complete traces in which '
                'at least two threads operated on the same synchronisation object. seqx: every history/program/configuration up to the '
                'stated depth executed on fresh real objects against a reference model; states = distinct canonical keys; '
                'distinct_nontrivial = cases that left the initial state.')
RULES = {}
EXPLAIN = {}
DEFAULT_ASSUMPTIONS = [
    'interleavings are sequentially consistent: relaxed atomics return the latest value in the explored interleaving; missing '
    'release/acquire is judged separately by the C++20 happens-before race oracle',
    'code outside the instrumented TU (libstdc++.so, libc) is invisible to the race oracle (can hide, never invent a race)',
    'compare_exchange_weak never fails spuriously; condition variables do not wake spuriously',
    'harness built with g++ 12.2 -O1 -DNDEBUG -D_GLIBCXX_ASSERTIONS against the current /repo/src headers',
]
ASSUMPTIONS = {}


def vrt(tu, scenarios, bound=2, unbounded=False, race_oracle=False, workers=16, ignore=None):
    return dict(kind='vrt', tu=tu, scenarios=scenarios, bound=bound, unbounded=unbounded, race_oracle=race_oracle, workers=workers,
                ignore=ignore or [])


def seq(tu, args=None, ignore=None):
    return dict(kind='seq', tu=tu, args=args or [], ignore=ignore or [])


def jobs(pid, tier):
    q = tier == 'quick'
    if pid == 'C07':
        if q:
            return [vrt('C07', [r'mx2_.*_r1'], bound=2, workers=2, ignore=[r'^mutex/fifo']),
                    vrt('C07', [r'mx2_(co-co|co-bl)_(dis-dis|dtor-awt|awt-awt|dis-move)_r2'], bound=2, workers=4, ignore=[r'^mutex/fifo']),
                    vrt('C07', [r'mx3_f[012]_r[023]'], bound=2, workers=8, ignore=[r'^mutex/fifo'])]
        return [vrt('C07', [r'mx2_.*_r1'], unbounded=True, workers=4, ignore=[r'^mutex/fifo']),
                vrt('C07', [r'mx2_.*_r2'], bound=3, workers=4, ignore=[r'^mutex/fifo']),
                vrt('C07', [r'mx3_.*'], bound=3, workers=16, ignore=[r'^mutex/fifo']),
                vrt('C07', [r'mx4_.*'], bound=2, workers=16, ignore=[r'^mutex/fifo'])]
    if pid == 'C08':
        if q:
            return [vrt('C07', [r'mx2_.*_r1'], bound=2, workers=2),
                    vrt('C07', [r'mx3_f[012]_r[0123]'], bound=2, workers=8)]
        return [vrt('C07', [r'mx2_.*_r1'], unbounded=True, workers=4),
                vrt('C07', [r'mx3_.*'], bound=3, workers=16),
                vrt('C07', [r'mx4_.*'], bound=2, workers=16)]
    return []
