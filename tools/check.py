#!/usr/bin/env python3
"""check.py <ID> --tier quick|thorough      the only entry point registered in MANIFEST.json

Rebuilds the harness binaries of property <ID> from $VERIF_REPO_ROOT/src (default /repo/src), runs the
vrt / seqx explorations listed in tools/plan.py, writes evidence/<ID>.json, and prints
  VIOLATION property=<ID> replay=<path>      for every violation not listed in known_findings.json (exit 1)
  KNOWN-FINDING: property=<ID> <what>         for every listed one (exit 0 if nothing else)
Exit 2 = harness error (build failure, replay divergence, watchdog): never reported as a violation.
"""
import argparse, concurrent.futures as cf, hashlib, json, os, re, subprocess, sys, time

ROOT = os.path.dirname(os.path.dirname(os.path.abspath(__file__)))
sys.path.insert(0, os.path.join(ROOT, 'tools'))
import plan  # noqa: E402

REPO = os.environ.get('VERIF_REPO_ROOT', '/repo')
SRC = os.path.join(REPO, 'src')
BUILD = os.environ.get('VERIF_BUILD_DIR', os.path.join(ROOT, 'build'))  # scratch evaluations of seeded changes build elsewhere
ENGINE_BUILD = os.path.join(ROOT, 'build', 'engine')
CXX = os.environ.get('CXX', 'g++')

VRT_FLAGS = ['-std=c++20', '-O1', '-g', '-fno-omit-frame-pointer', '-fsanitize=thread', '-DNDEBUG', '-D_GLIBCXX_ASSERTIONS',
             '-DCOCLS_VERIF', '-include', os.path.join(ROOT, 'engine/shim/vstd.h'), '-I' + SRC, '-I' + ROOT,
             '-fno-access-control', '-no-pie', '-w']
SEQ_FLAGS = ['-std=c++20', '-O1', '-g', '-fno-omit-frame-pointer', '-fsanitize=address,undefined', '-fno-sanitize-recover=undefined',
             '-DNDEBUG', '-D_GLIBCXX_ASSERTIONS', '-DCOCLS_VERIF', '-DVERIF_SEQ', '-include', os.path.join(ROOT, 'engine/shim/vstd.h'),
             '-I' + SRC, '-I' + ROOT, '-fno-access-control', '-w']


def log(*a):
    print(*a, file=sys.stderr, flush=True)


def sh(cmd, **kw):
    return subprocess.run(cmd, capture_output=True, text=True, **kw)


def tree_hash(paths):
    h = hashlib.sha256()
    for p in sorted(paths):
        h.update(p.encode())
        with open(p, 'rb') as f:
            h.update(f.read())
    return h.hexdigest()


def src_files():
    out = []
    for d, _, fs in os.walk(SRC):
        out += [os.path.join(d, f) for f in fs if f.endswith('.h')]
    return out


def engine_files():
    out = []
    for d, _, fs in os.walk(os.path.join(ROOT, 'engine')):
        out += [os.path.join(d, f) for f in fs]
    return out


def build_engine():
    r = sh(['make', '-s', '-C', os.path.join(ROOT, 'engine'), '-j4'])
    if r.returncode:
        log(r.stdout, r.stderr)
        raise SystemExit(2)


def build_tu(tu, kind):
    """kind: 'vrt' or 'seq'. Returns path of the binary. Rebuilt whenever repo headers, scenario or engine change."""
    d = os.path.join(BUILD, tu)
    os.makedirs(d, exist_ok=True)
    src = os.path.join(ROOT, 'scenarios', f'{tu}_{kind}.cpp')
    exe = os.path.join(d, f'{tu}_{kind}')
    flags = list(VRT_FLAGS if kind == 'vrt' else SEQ_FLAGS)
    # a scenario may add compiler flags of its own on a line '// VERIF_FLAGS: ...' near its top (and says there why)
    for line in open(src).read().split('\n')[:12]:
        if line.startswith('// VERIF_FLAGS:'):
            flags += line.split(':', 1)[1].split()
    extra = [os.path.join(ROOT, 'scenarios', f) for f in os.listdir(os.path.join(ROOT, 'scenarios')) if f.endswith('.h')]
    stamp = tree_hash(src_files() + engine_files() + extra + [src]) + ' ' + ' '.join(flags) + ' ' + REPO
    sf = exe + '.stamp'
    if os.path.exists(exe) and os.path.exists(sf) and open(sf).read() == stamp:
        return exe
    t0 = time.time()
    obj = exe + '.o'
    r = sh([CXX] + flags + ['-c', src, '-o', obj])
    if r.returncode:
        log(f'BUILD FAILED {src}\n' + r.stderr[-6000:])
        raise SystemExit(2)
    if kind == 'vrt':
        link = [CXX, '-no-pie', obj, os.path.join(ENGINE_BUILD, 'rt.o'), '-o', exe, '-lpthread']
    else:
        link = [CXX, '-fsanitize=address,undefined', obj, os.path.join(ENGINE_BUILD, 'seq_backend.o'), '-o', exe, '-lpthread']
    r = sh(link)
    if r.returncode:
        log(f'LINK FAILED {exe}\n' + r.stderr[-6000:])
        raise SystemExit(2)
    open(sf, 'w').write(stamp)
    log(f'built {os.path.relpath(exe, ROOT)} in {time.time() - t0:.1f}s')
    return exe


# ------------------------------------------------------------------------------------------ symbolisation
_sym_cache = {}


def canon_fn(name):
    # strip template arguments, parameter lists and clone suffixes -> stable across instantiations and line shifts
    name = re.sub(r'\s*\[clone[^\]]*\]', '', name)
    out, depth = [], 0
    for ch in name:
        if ch == '<':
            depth += 1
        elif ch == '>':
            depth -= 1
        elif depth == 0:
            out.append(ch)
    name = ''.join(out)
    depth, out = 0, []
    for ch in name:
        if ch == '(':
            depth += 1
        elif ch == ')':
            depth -= 1
        elif depth == 0:
            out.append(ch)
    name = ''.join(out).strip()
    name = re.sub(r'\s+(const|volatile|&|&&|noexcept)$', '', name)
    name = re.sub(r'\s+(const|volatile|&|&&|noexcept)$', '', name)
    name = re.sub(r'\{lambda#\d+\}', '{lambda}', name)
    name = name.replace('(anonymous namespace)::', '').replace('std::__n4861::', 'std::')
    return name.split(' ')[-1] if name else '?'


def symbolise(exe, pcs):
    need = [p for p in pcs if (exe, p) not in _sym_cache]
    if need:
        # pc is a return address: look up pc-1 so that we land inside the call instruction
        r = sh(['addr2line', '-e', exe, '-f', '-C', '-i'] + [hex(int(p, 16) - 1) for p in need])
        # -i prints a variable number of lines per address: run one by one when ambiguous
        for p in need:
            rr = sh(['addr2line', '-e', exe, '-f', '-C', '-i', hex(int(p, 16) - 1)])
            lines = rr.stdout.strip().split('\n')
            frames = []
            for i in range(0, len(lines) - 1, 2):
                fn, loc = lines[i], lines[i + 1]
                loc = re.sub(r' \(discriminator \d+\)', '', loc)
                frames.append((fn, loc))
            _sym_cache[(exe, p)] = frames or [('?', '?')]
    return {p: _sym_cache[(exe, p)] for p in pcs}


def site_of(frames):
    """innermost frame that lies in the library (cocls) if any, else innermost"""
    for fn, loc in frames:
        if '/cocls/' in loc:
            return os.path.basename(loc.split(':')[0]) + ':' + canon_fn(fn), loc
    fn, loc = frames[0]
    return os.path.basename(loc.split(':')[0]) + ':' + canon_fn(fn), loc


def canon_signature(exe, sig, detail):
    m = re.match(r'race/(0x[0-9a-f]+)~(0x[0-9a-f]+)$', sig)
    if m:
        cp = re.findall(r'at pc (0x[0-9a-f]+) \(called from pc (0x[0-9a-f]+)\)', detail)
        callers = {a: c for a, c in cp}
        sy = symbolise(exe, [m.group(1), m.group(2)] + [c for c in callers.values() if c != '0'])

        def site2(pc):
            s_, l_ = site_of(sy[pc])
            c = callers.get(pc)
            if '/cocls/' not in l_ and c and c in sy and c != '0':
                s2, l2 = site_of(sy[c])
                if '/cocls/' in l2:
                    return s2, l2 + ' <- ' + l_
            return s_, l_
        a, la = site2(m.group(1))
        b, lb = site2(m.group(2))
        x = sorted([(a, la), (b, lb)])
        # "user" side: the innermost (inlined) frame of the access lies in harness code, i.e. the access is made by code a user
        # of the library wrote (payload constructor, critical section, coroutine body) rather than by the library itself
        user = any('/scenarios/' in sy[pc][0][1] for pc in (m.group(1), m.group(2)))
        return f'race/{x[0][0]}~{x[1][0]}', detail + f' [{x[0][1]} ~ {x[1][1]}]' + (' [user-side access involved]' if user else '')
    pcs = sorted(set(re.findall(r'pc (0x[0-9a-f]+)', detail)))
    if pcs and exe:
        sy = symbolise(exe, pcs)
        extra = '; '.join(f'{p}={site_of(sy[p])[0]}@{site_of(sy[p])[1]}' for p in pcs)
        detail = detail + ' [' + extra + ']'
        if sig.startswith('heap/'):
            # site = where the bad access happened (first pc mentioned)
            first = re.search(r'pc (0x[0-9a-f]+)', detail).group(1)
            sig = sig + '/' + site_of(sy[first])[0]
    return sig, detail


# ------------------------------------------------------------------------------------------ running jobs
def run_vrt_scenario(exe, scen, job, deadline_abs, outdir):
    out = os.path.join(outdir, scen + '.json')
    if time.time() >= deadline_abs:
        # the check's budget is used up: the scenario is not started (reported as skipped; the run is not exhaustive)
        return {'scenario': scen, 'skipped': 1}
    deadline_s = max(5.0, deadline_abs - time.time())  # what is left of the check's budget when this scenario starts
    cmd = [exe, '--run', scen, '--workers', str(job.get('workers', 16)), '--deadline', f'{deadline_s:.0f}', '--json', out]
    if job.get('unbounded'):
        cmd += ['--unbounded']
    else:
        cmd += ['--bound', str(job['bound'])]
    if job.get('race_oracle'):
        cmd += ['--race-oracle']
    if job.get('no_cache'):
        cmd += ['--no-cache']
    if job.get('spurious'):
        cmd += ['--spurious']
    if job.get('cache_bits'):
        cmd += ['--cache-bits', str(job['cache_bits'])]
    if job.get('max_viol'):
        cmd += ['--max-viol-execs', str(job['max_viol'])]
    r = sh(cmd)
    if r.returncode not in (0, 1):
        return {'scenario': scen, 'harness_error': 1, 'harness_error_msg': (r.stderr or '')[-2000:], 'rc': r.returncode}
    d = json.load(open(out))
    d['rc'] = r.returncode
    if job.get('race_oracle') == 'user' and d.get('violations') and all(v['sig'].startswith('race/') for v in d['violations']):
        # user-side mode: races of the library's own state are left to C03. When such races are all this run reported they have
        # nevertheless ended executions (and, past the cap, the scenario): whatever else is wrong in the scenario was never reached.
        # The scenario is run again without the race oracle and that run is the one that is judged.
        if not any('[user-side access involved]' in canon_signature(exe, v['sig'], v['detail'])[1] for v in d['violations']):
            internal = sum(v.get('count', 1) for v in d['violations'])
            cmd2 = [c for c in cmd if c != '--race-oracle']
            r2 = sh(cmd2)
            if r2.returncode in (0, 1):
                d = json.load(open(out))
                d['rc'] = r2.returncode
                d['library_internal_race_reports_in_first_pass'] = internal
    return d


def replay_vrt(exe, path):
    r = sh([exe, '--replay', path], timeout=600)
    m = re.findall(r'^OUTCOME sig=(\S+) loghash=(\S+) points=(\d+)', r.stdout, re.M)
    return r.returncode, m


def load_known():
    p = os.path.join(ROOT, 'known_findings.json')
    if not os.path.exists(p):
        return []
    return json.load(open(p)).get('findings', [])


def main():
    ap = argparse.ArgumentParser()
    ap.add_argument('prop')
    ap.add_argument('--tier', default=os.environ.get('VERIF_TIER', 'quick'), choices=['quick', 'thorough'])
    ap.add_argument('--only', default=None, help='regex restricting scenarios (debugging)')
    args = ap.parse_args()
    pid, tier = args.prop, args.tier
    seed = int(os.environ.get('VERIF_SEED', '0') or 0)
    t_start = time.time()
    budget = float(os.environ.get('VERIF_DEADLINE_S', '0') or 0) or plan.BUDGET[tier]
    jobs = plan.jobs(pid, tier)
    if not jobs:
        log(f'no jobs for {pid}')
        return 2
    build_engine()
    evid_dir = os.environ.get('VERIF_EVIDENCE_DIR') or os.path.join(ROOT, 'evidence')
    os.makedirs(evid_dir, exist_ok=True)
    replay_dir = os.path.join(BUILD, pid, 'replay')
    os.makedirs(replay_dir, exist_ok=True)
    for f in os.listdir(replay_dir):
        os.unlink(os.path.join(replay_dir, f))

    # build all binaries first (parallel)
    bins = {}
    tus = sorted({(j['tu'], j['kind']) for j in jobs})
    with cf.ThreadPoolExecutor(max_workers=8) as ex:
        for (tu, kind), exe in zip(tus, ex.map(lambda tk: build_tu(*tk), tus)):
            bins[(tu, kind)] = exe

    known = [k for k in load_known() if k.get('property') == pid]
    agg = dict(states=0, transitions=0, traces=0, evaluations=0, distinct_nontrivial=0, completed=0, pruned=0, deadlocks=0)
    per_job, samples, raw_viol = [], [], []
    exhaustive, harness_errors = True, []
    outcomes_total = 0
    racy_sites = set()

    for ji, job in enumerate(jobs):
        exe = bins[(job['tu'], job['kind'])]
        elapsed = time.time() - t_start
        # the rest of the budget is shared among the jobs still to run (what a job leaves unused rolls over)
        left = budget - elapsed
        remaining = max(5.0, left / max(1, len(jobs) - ji), 0.5 * left)  # at least an equal share, at most half of what is left
        outdir = os.path.join(BUILD, pid, f'out{ji}')
        os.makedirs(outdir, exist_ok=True)
        if job['kind'] == 'vrt':
            listed = sh([exe, '--list']).stdout.split()
            scens = [s for s in listed if any(re.fullmatch(p, s) for p in job['scenarios'])]
            if args.only:
                scens = [s for s in scens if re.search(args.only, s)]
            if not scens:
                harness_errors.append(f'job {ji}: no scenario matches {job["scenarios"]}')
                continue
            par = max(1, 16 // job.get('workers', 16))
            # every scenario may use the whole remaining budget of the check: the runtime reports what it completed
            per_scen_deadline = time.time() + remaining
            with cf.ThreadPoolExecutor(max_workers=par) as ex:
                results = list(ex.map(lambda s: run_vrt_scenario(exe, s, job, per_scen_deadline, outdir), scens))
            jstat = dict(tu=job['tu'], engine='vrt', scenarios=len(scens), bound=('unbounded' if job.get('unbounded') else job['bound']),
                         race_oracle=('user-side accesses' if job.get('race_oracle') == 'user' else bool(job.get('race_oracle'))), executions=0, states=0, transitions=0, distinct_traces=0,
                         distinct_nontrivial=0, distinct_outcomes=0, bound_completed_min=None, not_exhaustive=[], rounds_max=0,
                         racy_pcs=0, pruned_by_cache=0, deadlock_executions=0)
            jstat['skipped_scenarios'] = 0
            for d in results:
                if d.get('harness_error'):
                    harness_errors.append(f"{d['scenario']}: {d.get('harness_error_msg')}")
                    continue
                if d.get('skipped'):
                    jstat['skipped_scenarios'] += 1
                    jstat['not_exhaustive'].append(d['scenario'] + ' (not started: budget used up)')
                    exhaustive = False
                    continue
                if d.get('library_internal_race_reports_in_first_pass'):
                    jstat['library_internal_races_left_to_C03'] = jstat.get('library_internal_races_left_to_C03', 0) + d['library_internal_race_reports_in_first_pass']
                jstat['executions'] += d['executions_total']
                jstat['states'] += d['states']
                jstat['transitions'] += d['transitions_total']
                jstat['distinct_traces'] += d['distinct_traces']
                jstat['distinct_nontrivial'] += d['distinct_nontrivial']
                jstat['distinct_outcomes'] += len(d['outcomes'])
                jstat['pruned_by_cache'] += d['pruned_by_cache']
                jstat['deadlock_executions'] += d['deadlocks']
                jstat['rounds_max'] = max(jstat['rounds_max'], d['rounds'])
                rp = [x for x in d['racy_pcs'].split(',') if x]
                jstat['racy_pcs'] += len(rp)
                if rp:
                    for p, fr in symbolise(exe, rp).items():
                        racy_sites.add(site_of(fr)[1])
                bc = d['bound_completed']
                jstat['bound_completed_min'] = bc if jstat['bound_completed_min'] is None else min(jstat['bound_completed_min'], bc)
                if not d['exhaustive_within_bound'] or d.get('stopped_after_violations'):
                    jstat['not_exhaustive'].append(d['scenario'])
                    exhaustive = False
                agg['completed'] += d['completed_executions']
                if d['samples'] and len(samples) < 6:
                    samples.append({'scenario': d['scenario'], 'execution': d['samples'][-1][:1800]})
                for v in d['violations']:
                    sig, det = canon_signature(exe, v['sig'], v['detail'])
                    if job.get('ignore') and any(re.search(p, sig) for p in job['ignore']):
                        continue
                    if job.get('race_oracle') == 'user' and sig.startswith('race/') and '[user-side access involved]' not in det:
                        # both accesses are made by library code: a data race of the library's own state is C03's subject; this
                        # property's check counts races only where code written by the user of the library takes part
                        jstat['library_internal_races_left_to_C03'] = jstat.get('library_internal_races_left_to_C03', 0) + v['count']
                        continue
                    raw_viol.append(dict(engine='vrt', exe=exe, scenario=d['scenario'], sig=sig, detail=det, schedule=v['schedule'],
                                         racy_pcs=','.join([x for x in d['racy_pcs'].split(',') if x][:v.get('nracy', 10**6)]), race_oracle=int(bool(job.get('race_oracle')) and not d.get('library_internal_race_reports_in_first_pass')), spurious=int(bool(job.get('spurious'))), count=v['count'],
                                         log=v['log'], raw_sig=v['sig']))
            agg['states'] += jstat['states']
            agg['transitions'] += jstat['transitions']
            agg['traces'] += jstat['executions']
            agg['evaluations'] += jstat['executions']
            agg['distinct_nontrivial'] += jstat['distinct_nontrivial']
            agg['pruned'] += jstat['pruned_by_cache']
            outcomes_total += jstat['distinct_outcomes']
            per_job.append(jstat)
        else:  # seqx
            out = os.path.join(outdir, 'seq.json')
            cmd = [exe, '--tier', job.get('tier') or tier, '--json', out, '--deadline', f'{remaining:.0f}', '--workers', '16'] + job.get('args', [])
            r = sh(cmd)
            if r.returncode not in (0, 1) or not os.path.exists(out):
                harness_errors.append(f"seq {job['tu']}: rc={r.returncode} {r.stderr[-1500:]}")
                continue
            d = json.load(open(out))
            jstat = dict(tu=job['tu'], engine='seqx', cases=d['cases'], states=d['states'], transitions=d['transitions'],
                         distinct_nontrivial=d['distinct_nontrivial'], exhaustive=d['exhaustive'], parts=d.get('parts', []),
                         distinct_outcomes=d.get('distinct_outcomes', 0))
            per_job.append(jstat)
            agg['states'] += d['states']
            agg['transitions'] += d['transitions']
            agg['traces'] += d['cases']
            agg['evaluations'] += d['cases']
            agg['distinct_nontrivial'] += d['distinct_nontrivial']
            outcomes_total += d.get('distinct_outcomes', 0)
            if not d['exhaustive']:
                exhaustive = False
            for s in d.get('samples', [])[:3]:
                if len(samples) < 8:
                    samples.append({'scenario': job['tu'] + '_seq', 'case': s})
            for v in d['violations']:
                if job.get('ignore') and any(re.search(p, v['sig']) for p in job['ignore']):
                    continue
                raw_viol.append(dict(engine='seqx', exe=exe, scenario=job['tu'] + '_seq', sig=v['sig'], detail=v['detail'],
                                     case=v['case'], count=v.get('count', 1)))

    # ---------------------------------------------------------------- classify violations
    by_sig = {}
    for v in raw_viol:
        by_sig.setdefault(v['sig'], []).append(v)
    known_hits, new_viol = [], []
    unreproducible_deaths = []
    for sig, vs in sorted(by_sig.items()):
        k = next((k for k in known if k['status'] == 'known' and k['signature'] == sig), None)
        v = min(vs, key=lambda x: len(x.get('schedule', x.get('case', ''))))
        total = sum(x['count'] for x in vs)
        if k:
            known_hits.append(dict(signature=sig, what=k['what'], occurrences=total, scenarios=sorted({x['scenario'] for x in vs})[:8]))
            continue
        n = len(new_viol)
        path = os.path.join(replay_dir, f'{n:02d}.json')
        if v['engine'] == 'vrt':
            rep = dict(property=pid, engine='vrt', scenario=v['scenario'], schedule=v['schedule'], racy_pcs=v['racy_pcs'],
                       race_oracle=v['race_oracle'], spurious=int(bool(v.get('spurious'))), signature=sig, raw_signature=v['raw_sig'], detail=v['detail'], event_log=v['log'],
                       binary=os.path.relpath(v['exe'], ROOT), note='racy_pcs are addresses in this build of the binary')
            json.dump(rep, open(path, 'w'), indent=1)
            # replay twice in fresh processes; the outcome must be identical and must reproduce the signature
            try:
                r1 = replay_vrt(v['exe'], path)
                r2 = replay_vrt(v['exe'], path)
            except subprocess.TimeoutExpired:
                harness_errors.append(f'replay of {sig} timed out')
                continue
            sigs1 = {m[0] for m in r1[1]}
            if r1 != r2 or v['raw_sig'] not in sigs1:
                harness_errors.append(f'replay of {sig} ({v["scenario"]} [{v["schedule"]}]) is not reproducible: {r1} vs {r2}')
                continue
        else:
            rep = dict(property=pid, engine='seqx', scenario=v['scenario'], case=v['case'], signature=sig, detail=v['detail'],
                       binary=os.path.relpath(v['exe'], ROOT))
            json.dump(rep, open(path, 'w'), indent=1)
            r1 = sh([v['exe'], '--replay', path])
            r2 = sh([v['exe'], '--replay', path])
            o1 = re.findall(r'^OUTCOME sig=(\S+)', r1.stdout, re.M)
            o2 = re.findall(r'^OUTCOME sig=(\S+)', r2.stdout, re.M)
            if sig == 'crash/died' and r1.returncode == 0 and r2.returncode == 0 and o1 == o2 and all(o == 'none' for o in o1):
                # a worker process vanished inside this case without any report of ours or of a sanitizer, and the case -
                # deterministic, single-threaded - passes when it is run alone, twice: the death came from outside (memory
                # pressure, a kill). Not a violation and not a fault of the check; the run is simply not exhaustive.
                unreproducible_deaths.append(v['case'])
                exhaustive = False
                os.remove(path)
                continue
            UB = ('asan/', 'ubsan/', 'crash/')
            viol1 = [o for o in o1 if o != 'none']
            if (r1.returncode in (1, 3) and r2.returncode == r1.returncode and o1 == o2 and sig not in o1 and sig.startswith(UB)
                    and viol1 and all(o.startswith(UB) for o in viol1)):
                # the exploring worker saw one sanitizer report for this case and the case run alone gives, both times, another
                # one: undefined behaviour (a wild pointer, say) whose manifestation depends on what the process executed before.
                # The violation that is reported is the one the replay file reproduces.
                v = dict(v, detail=f'replay alone reports {viol1[0]}; the exploring worker reported {sig} for the same case '
                                   f'(undefined behaviour, manifestation depends on process history). ' + v['detail'])
                sig = viol1[0]
                rep['signature'] = sig
                rep['signature_during_exploration'] = vs[0]['sig']
                json.dump(rep, open(path, 'w'), indent=1)
            if r1.returncode not in (1, 3) or r2.returncode != r1.returncode or o1 != o2 or sig not in o1:
                harness_errors.append(f'replay of {sig} case {v["case"]} is not reproducible (rc {r1.returncode}/{r2.returncode})')
                continue
        new_viol.append(dict(signature=sig, detail=v['detail'][:1500], scenario=v['scenario'], replay=path, occurrences=total,
                             scenarios=sorted({x['scenario'] for x in vs})[:8]))

    wall = time.time() - t_start
    rule = plan.RULES.get(pid, plan.DEFAULT_RULE)
    coverage = dict(
        states=max(agg['states'], 1), transitions=max(agg['transitions'], 1), traces_validated_against_impl=agg['traces'],
        evaluations=agg['evaluations'], distinct_nontrivial=agg['distinct_nontrivial'], rule=rule, samples=samples or ['(none)'],
        exhaustive=bool(exhaustive and not harness_errors), distinct_outcomes=outcomes_total, pruned_by_cache=agg['pruned'],
        jobs=per_job, racy_access_sites=sorted(racy_sites)[:40], known_findings=known_hits,
        new_violations=[dict(signature=v['signature'], scenario=v['scenario'], occurrences=v['occurrences']) for v in new_viol],
        explanation=plan.EXPLAIN.get(pid, ''), harness_errors=harness_errors,
        worker_deaths_not_reproducible_alone=unreproducible_deaths[:20])
    ev = dict(property_id=pid, tier=tier, seed=seed, level='model_checking', coverage=coverage,
              assumptions=plan.ASSUMPTIONS.get(pid, plan.DEFAULT_ASSUMPTIONS), wall_s=round(wall, 2), violations=len(new_viol))
    json.dump(ev, open(os.path.join(evid_dir, pid + '.json'), 'w'), indent=1)

    for k in known_hits:
        print(f"KNOWN-FINDING: property={pid} {k['signature']}: {k['what']}")
    for v in new_viol:
        print(f"VIOLATION property={pid} replay={v['replay']}")
        print(f"  signature: {v['signature']}\n  scenario: {v['scenario']}\n  detail: {v['detail'][:700]}")
    print(f"{pid} {tier}: states={agg['states']} transitions={agg['transitions']} executions={agg['evaluations']} "
          f"nontrivial={agg['distinct_nontrivial']} outcomes={outcomes_total} exhaustive={coverage['exhaustive']} "
          f"known={len(known_hits)} new={len(new_viol)} wall={wall:.1f}s")
    for h in harness_errors:
        log('HARNESS ERROR:', h)
    if new_viol:
        return 1
    return 2 if harness_errors else 0


if __name__ == '__main__':
    sys.exit(main())
