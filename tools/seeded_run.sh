#!/bin/bash
# seeded_run.sh [id-pattern]: applies every seeded change to a scratch copy of /repo (never to /repo), runs the quick check of
# the property it breaks with VERIF_REPO_ROOT pointing at the copy, and prints caught / MISSED per change.
cd "$(dirname "$(readlink -f "$0")")/.."
ROOT=$(pwd)
PAT=${1:-.}
fail=0
for d in seeded/*/; do
  id=$(basename "$d"); [[ "$id" =~ $PAT ]] || continue
  [ -f "$d/meta.json" ] || continue
  # the check that is expected to report the change: the property it was written against, unless meta.json names another
  prop=$(python3 -c "import json;m=json.load(open('$d/meta.json'));print((m.get('checked_with') or [m['breaks_property']])[0])")
  W=$(mktemp -d /tmp/seedrun.XXXXXX)
  git -C /repo archive HEAD | tar -x -C "$W"
  if ! (cd "$W" && git init -q . >/dev/null 2>&1 && git apply --whitespace=nowarn "$ROOT/$d/patch.diff"); then echo "$id $prop PATCH-DOES-NOT-APPLY"; rm -rf "$W"; fail=1; continue; fi
  out=$(VERIF_REPO_ROOT="$W" VERIF_BUILD_DIR="$W/vbuild" VERIF_EVIDENCE_DIR="$W/evidence" python3 tools/check.py "$prop" --tier quick 2>&1); rc=$?
  sig=$(echo "$out" | grep -m1 "signature:" | sed 's/ *signature: //')
  if [ $rc -eq 1 ]; then echo "$id $prop caught ($sig)"; else echo "$id $prop MISSED (exit $rc)"; fail=1; fi
  rm -rf "$W"
done
exit $fail
