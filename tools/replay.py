#!/usr/bin/env python3
"""replay.py <replay.json>: re-runs one recorded schedule (vrt) or case (seqx) without the explorer."""
import json, os, subprocess, sys
ROOT = os.path.dirname(os.path.dirname(os.path.abspath(__file__)))
d = json.load(open(sys.argv[1]))
exe = os.path.join(ROOT, d['binary'])
if not os.path.exists(exe):
    print('binary missing: run the check of property', d.get('property'), 'first', file=sys.stderr)
    sys.exit(2)
sys.exit(subprocess.call([exe, '--replay', sys.argv[1]]))
