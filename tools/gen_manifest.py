#!/usr/bin/env python3
"""Regenerates MANIFEST.json from the table below (claimed properties) and properties.jsonl (the rest -> not_applicable)."""
import json, os, sys

ROOT = os.path.dirname(os.path.dirname(os.path.abspath(__file__)))
sys.path.insert(0, os.path.join(ROOT, 'tools'))

VRT_NOTE = ('Trusted base: g++ 12 -fsanitize=thread instrumentation (every atomic and plain access of the harness TU, cocls headers and inlined '
            'libstdc++ calls into our run-time), the vrt scheduler/HB detector/heap oracle in engine/vrt, the std shim in engine/shim. '
            'Interleavings are explored under sequential consistency up to the stated deviation bound; conflicting plain accesses are judged '
            'by C++20 happens-before (release sequences, fences); in every threaded check such a race counts as a violation when code written by the '
            'library\'s user takes part in it (payload, critical section, coroutine body), library-internal races are C03\'s. compare_exchange_weak / condition variables do not fail or wake spuriously. '
            'Harness sizes (threads, operations) are the bound of the universal quantifier.')
SEQ_NOTE = ('Trusted base: ASan (with stack-use-after-return detection)/UBSan/_GLIBCXX_ASSERTIONS as crash oracles, the reference models written in the harness, the enumeration driver '
            'in engine/seqx. All histories/programs/configurations up to the stated depth are executed on fresh real objects; longer ones are not.')

# property -> (engines, technique, level text, design ref)
CLAIMS = {
    'C01': ('vrt', 'stateless model checking of the implementation (preemption-bounded DFS + HB-prefix cache, unbounded for small harnesses)',
            'Every interleaving (bound 2 quick / 3 thorough; all interleavings for the two-resolver harnesses without waiter) of 1-3 competing resolvers '
            'of every kind (value, exception, drop, moved promise called / dying, move-assignment over it, bind(payload), async coroutine bound with start(promise)) with a '
            'waiter (wait, coroutine, blocking and awaited has_value) and the final promise destruction, for int / instance-counted / move-only / void / '
            'reference results, is executed on the real future/promise; exactly-one-winner, payload, stability, loser arguments and loser coroutine '
            'untouched, waiter result, value lifetime and heap are checked in each.', '5/C01'),
    'C02': ('vrt', 'stateless model checking of the implementation (preemption-bounded DFS + HB-prefix cache; all interleavings for one waiter)',
            'Every interleaving within the bound of 1-3 waiters of every kind (coroutine, wait, sync, pre-configured callback awaiter, callback function '
            'through co_awaiter::await_suspend(fn,ctx), call_fn_future_awaiter, awaited has_value, poller) against every resolver kind (value, exception, '
            'drop, promise destruction, assignment over the promise, completion of an async coroutine), re-used and re-arming awaiters, throwing factories; before/during/after-resolution subscription arises from the schedule. '
            'Exactly-once release, never before the result is set, complete result at release, no waiter left, no access to a dead awaiter (heap oracle).', '5/C02'),
    'C03': ('vrt', 'stateless model checking with a C++20 happens-before race oracle on every explored execution',
            'The threaded harnesses of the other properties (13 harness TUs: future/promise, waiters, async, mutex, queues, thread pool incl. submitters racing '
            'with stop, scheduler, generators, signal, publisher incl. two publishing threads, shared_future, adapters, thread-safe storage) are explored with '
            'the vector-clock race detector as oracle: no two conflicting plain accesses (or access vs free) unordered by the synchronises-with edges the '
            'code declares, in any explored interleaving. Non-SC executions themselves are not enumerated; a missing release/acquire is nevertheless caught '
            'because happens-before is judged by the C++ rules, not by what x86 does.', '5/C03'),
    'C07': ('vrt', 'stateless model checking of the implementation (racy plain accesses promoted to scheduling points, to fixpoint)',
            'K=2..4 contenders of every flavour (co_await, blocking, try_lock) and release style (discarded, destructor, awaited, moved to another '
            'thread, handed to a thread pool, assignment over the held ownership, one shared ownership slot), 1-2 rounds: holders<=1 at every point, '
            'grants==requests, no resume of a running coroutine, heap clean.', '5/C07'),
    'C08': ('vrt', 'stateless model checking of the implementation (same harness family as C07)',
            'Grant order respects the real-time partial order of requests, every request is granted (else deadlock report with schedule), the '
            'mutex is lockable again after all releases (every release style of C07), try_lock never blocks.', '5/C08'),
    'C04': ('vrt+seqx', 'exhaustive enumeration of the start-mode x completion x type x depth product on the real code, reference outcome per cell; stateless model checking for completions on another thread',
            'seqx: all feasible cells (13 start modes x 4 completion modes x 5 result types incl. reference x depth 1..3, plus reference-returning coroutines '
            'bound to value futures) are executed: body-run counters per level, delivery to the bound party, RAII guards on arguments and locals, value '
            'lifetime and frame allocation balance. vrt: join / start / future+coroutine waiter / thread_pool::run with the gate opened by another thread, '
            'start(promise) racing a direct call of the same promise, bound 2/3.', '5/C04'),
    'C05': ('seqx', 'exhaustive program enumeration; every event checked online against a reference scheduler (bounded model checking of schedules)',
            'Every well-formed program of N scripted coroutines over an 18-step alphabet (pause, resolve discard/await, await, lock, release, queue push/pop, '
            'detach, start(), co_await child, merged suspend points, create_suspend_point, nested activation; N=2 x <=3 steps, N=3 x <=2 steps quick; more thorough) entered from '
            'normal code, from a coroutine, from a destructor during stack unwinding and handle by handle through coro_queue::resume, plus the wide wake-up family (one resolution readies 1-6 coroutines), runs on the real library; each '
            'start/resume/finish event must be allowed by a reference scheduler that encodes run-to-suspension, FIFO order, pause round-robin, exactly-once '
            'resumption and full drain, leaving open only what the property leaves open.', '5/C05'),
    'C06': ('seqx', 'explicit-state breadth-first search over operation histories on real objects, deduplicated by a canonical key',
            'All reachable canonical states (per slot: exists, count, heap flag, capacity; normal / coroutine mode) with up to 14 (quick) / 40 '
            '(thorough) live handles are visited, operations incl. co_await by a coroutine whose own handle is in the suspend point; after every history plus '
            'teardown each handle (a real suspended coroutine) must have been resumed exactly once (a second resume is a use-after-free under ASan), typed '
            'values preserved, allocation balance 0.', '5/C06'),
    'C09': ('vrt+seqx', 'exhaustive history enumeration against a reference model (item list + waiter list) + stateless model checking of producer/consumer threads',
            'seqx: every history over push/pop/pop by a re-used callback consumer/unblock_pop/reap/destroy up to depth 7 (quick) / 9 for queue<int>, '
            'queue<MoveOnly>, queue<void>: after every step the readiness, value or exception of every pop, push results and size()/empty() equal the model; '
            'destruction cancels waiting pops; allocation balance. vrt: 1-3 producers x 1-3 blocking/coroutine consumers, optional unblock_pop thread: '
            'multiset conserved, per-producer order per consumer, unblock result consistent, nobody left waiting.', '5/C09'),
    'C10': ('vrt+seqx', 'exhaustive history enumeration against a reference model (bounded FIFO + blocked producers + waiting consumers) + stateless model checking of threads',
            'seqx: every history over push/pop/unblock_push for limits 1..4 up to depth 8 (quick) / 11: readiness and result of every push and pop '
            'future, item order, withdrawal by unblock_push, size()/empty() compared with the model after every step. vrt: limits 1-2, 1-2 blocking producers '
            'against a blocking / coroutine consumer, and unblock_push on its own thread against the admitting pop: items once, order, size<=limit, nobody stuck.', '5/C10'),
    'C11': ('vrt', 'stateless model checking of the implementation (preemption-bounded DFS + HB-prefix cache)',
            'Pools of 1-3 workers, 1-2 submissions of every kind (co_await pool, run(fn) small/large closure, run_detached, co_await pool(future), '
            'run(async), resume(suspend_point)), stop()/destructor/self-stop/submitter racing with stop/job deleting its own pool at every schedule-chosen '
            'moment, dependent jobs, live-pool resume of several handles: each job ran once on a worker or was cancelled observably once, stop() returns in every '
            'schedule, closures freed, heap clean. Lost resume() jobs are a recorded known finding.', '5/C11'),
    'C12': ('vrt+seqx', 'exhaustive history / script enumeration under virtual time against a multiset model + stateless model checking of thread / pool mode with a clock pseudo-thread',
            'seqx manual mode: every history over schedule/cancel/cancel(e)/remove/get_expired (15 operations, depth 5 full alphabet, 6-8 reduced) against '
            'a multiset of pending sleeps, plus heap-shape histories (5-7 deadlines in every order). Single-thread start(awaitable) mode under virtual time: every '
            'script of 1-3 sleepers (sub-millisecond durations, second sleep, cancel of any sleeper at any time, interval() with stop token): never early, not '
            'late while idle, deadline order, exactly once, cancel result, destruction cancels the rest. vrt: scheduler in its own thread and in a thread pool '
            'against a client thread, early / idle destruction, bound 2/3.', '5/C12'),
    'C13': ('vrt+seqx', 'exhaustive enumeration of body scripts x consumer access-style sequences + stateless model checking of blocking access against another thread',
            'seqx: every body script over {yield, await ready, await pending, throw} (<=3 quick / 4) x every sequence of access styles (next/value, '
            'co_await next, call+wait, call+co_await has_value, range-for, early destroy; <=4 / 5), with and without argument: observed '
            'sequence == yielded sequence then one end indication, exception at its position, arguments, locals destroyed once. vrt: blocking styles while '
            'another thread completes the awaited operations (two asynchronous steps in a row).', '5/C13'),
    'C14': ('vrt+seqx', 'exhaustive enumeration of source multisets x consumer styles x stop points + stateless model checking with asynchronous sources on other threads',
            'seqx: every multiset of 0..3 (quick) / 0..5 scripted sources (empty, finite 1-3, infinite, throwing at 0/1, asynchronous) x consumer style pairs x '
            'argument / no argument x stop-after: multiset union, per-source order, ends iff all ended, exception reported without losing values, '
            'argument routing, source locals and allocations released. vrt: asynchronous sources opened by other threads (once and twice per source), blocking '
            'consumer, destruction while in flight.', '5/C14'),
    'C15': ('vrt+seqx', 'exhaustive history enumeration against a reference model (set of waiting listeners) + stateless model checking of listener / collector threads',
            'seqx: every history of depth 5 (quick) / 6 over listener arrival/leave (3 listeners), connect callback (true/false), collector calls by '
            'value (in place, const lvalue)/rvalue/lvalue on a value type with a poisoning destructor, copy/drop of collector and signal handles, hook_up: each '
            'call reaches exactly the waiting set once each with that value; last handle gone resumes every waiter with await_canceled_exception and deletes '
            'callbacks. vrt: listeners subscribing on other threads while the collector thread calls and drops; hook_up with a generator that emits during registration.', '5/C15'),
    'C16': ('vrt+seqx', 'exhaustive history enumeration against a cursor model + stateless model checking of publisher/subscriber threads',
            'seqx: every history (depth 5-6 quick, 7-8 thorough, and depth 4-5 continuations of five non-initial prefixes) over publish/batch/subscribe(recent, at, '
            'copy)/await/next_ready/kick/leave/close for (min,max) in 1..3 (1..5) and unlimited x three modes against the reference of DESIGN 5/C16. vrt: one and '
            'two publisher threads against coroutine, blocking and polling subscribers, bound 2/3.', '5/C16'),
    'C17': ('vrt', 'stateless model checking of the implementation (bound 2 over all scenarios, bound 3 on the core constructors; thorough: all interleavings for one handle thread)',
            'Resolver thread (value/exception/drop/overwritten promise/destroyed promise) against 1-2 threads running scripts over copy/await/wait/poll/drop with the main handle dropped '
            'early or late, for every constructor (promise function, future function pending/ready, default + get_promise, functions that start the resolver '
            'themselves, init_if_needed + copy + operator<<, a resolved state re-used through operator<<): same result for all, each awaiter once, stored value destroyed exactly once after resolution (Counted balance, heap oracle).', '5/C17'),
    'C18': ('vrt+seqx', 'exhaustive configuration product on the real code + stateless model checking (all interleavings) of concurrent resolution',
            'seqx: adapter (callback_await, callback_await_alloc, with lvalue awaitable and with stateful rvalue factory from normal code / from a coroutine, '
            'make_promise, make_promise+storage, discard, six future_conv shapes, call_fn_future_awaiter, two-step re-arming converter) x outcome (value, '
            'exception, drop) x timing (before / after registration) x converter returns/throws: completion count, outcome, outer future content, helper freed '
            'once. vrt: the same adapters with the source resolved concurrently on another thread, all interleavings.', '5/C18'),
    'C19': ('vrt+seqx', 'exhaustive history enumeration per storage policy with a spy storage + stateless model checking of two/three threads on the thread-safe storage',
            'seqx: every history of depth 5 (quick) / 7 over create(S/M/L), finish(i) and moves of the storage object within each policy discipline for 12 policy '
            'configurations, plus stack_storage with pre-initialised size states: blocks disjoint among live frames (spy + canaries), at least as large as '
            'requested (ASan on exactly sized buffers), dealloc matches alloc, heap fallback freed once, no allocation after warm-up, extra object constructed / '
            'usable / destroyed once at its own address. vrt with race oracle: 2-3 threads creating and finishing frames on one reusable_storage_mtsafe.', '5/C19'),
    'C20': ('vrt+seqx', 'exhaustive enumeration of program families inside a measured region (global operator new counter) + stateless model checking of cross-thread programs with an allocation counter',
            'seqx: future/promise with 0-3 coroutine-type waiters plus callback awaiter and sync_awaiters, every outcome and three value types; callback_await on '
            'stack_storage; moved frame storage; mutex try/blocking paths; suspend points with 0-4 handles and four disposals; synchronous generator stepping in '
            'three styles; every scheduling program of N=2 x <=3 / N=3 x <=2 steps over pause/resolve/await/lock/release with frames in reusable storage: '
            'operator new count in the region is 0. vrt: five cross-thread programs (blocked threads, mutex contention), allocation delta 0 in every interleaving.', '5/C20'),
}


def main():
    props = [json.loads(l) for l in open(os.path.join(ROOT, 'properties.jsonl'))]
    extra = {}
    ep = os.path.join(ROOT, 'tools', 'claims_extra.json')
    if os.path.exists(ep):
        extra = json.load(open(ep))
    claims = dict(CLAIMS)
    for k, v in extra.items():
        claims[k] = tuple(v)
    checks, na = [], []
    for p in props:
        pid = p['id']
        if pid in claims:
            eng, tech, text, ref = claims[pid]
            note = VRT_NOTE if eng == 'vrt' else SEQ_NOTE if eng == 'seqx' else VRT_NOTE + ' ' + SEQ_NOTE
            if pid == 'C19':
                note += ' The sequential C19 harness is built with -fno-sanitize=alignment (promise_extra_storage places its object without regard to alignment; not part of C19).'
            checks.append(dict(
                property_id=pid,
                quick_cmd=f'python3 tools/check.py {pid} --tier quick',
                thorough_cmd=f'python3 tools/check.py {pid} --tier thorough',
                evidence_file=f'/verif/evidence/{pid}.json',
                replay_cmd_template=f'python3 tools/replay.py {{path}}',
                engine=eng,
                level_claimed=dict(category='model_checking', text=text, design_ref=f'DESIGN.md section {ref}'),
                level_note=note,
                technique=tech))
        else:
            na.append(dict(property_id=pid, reason='check under construction in this round; not claimed until its harness is committed and green'))
    m = dict(
        version=1,
        setup_cmd='make -s -C /verif/engine -j16',
        hooks=dict(
            guard='COCLS_VERIF',
            enable='no source hooks in /repo: harness TUs are compiled with -DCOCLS_VERIF -include engine/shim/vstd.h against /repo/src headers '
                   '(vrt: -fsanitize=thread instrumentation linked with engine/vrt instead of libtsan; seqx: -fsanitize=address,undefined)',
            baseline_off_cmd='/verif/tools/repo_tests.sh /repo',
            source_commits=[],
            add_only=True),
        engines=[
            dict(name='vrt', path='engine/vrt', serves_properties=[c['property_id'] for c in checks if 'vrt' in c['engine']],
                 kind_free_text='controlled-concurrency stateless model checker on the real code: own TSan-ABI run-time, serialising scheduler, '
                                'deviation-bounded DFS with HB-prefix cache, C++20 happens-before race detector, heap oracle'),
            dict(name='seqx', path='engine/seqx', serves_properties=[c['property_id'] for c in checks if 'seqx' in c['engine']],
                 kind_free_text='exhaustive enumeration of operation histories / programs / configurations on real objects against reference models, '
                                'ASan+UBSan as crash oracles')],
        checks=checks,
        not_applicable=na,
        notes='All checks: python3 tools/check.py <ID> --tier quick|thorough. Known findings: known_findings.json. Design: DESIGN.md.')
    json.dump(m, open(os.path.join(ROOT, 'MANIFEST.json'), 'w'), indent=1)
    print('claimed', len(checks), 'not_applicable', len(na))


if __name__ == '__main__':
    main()
