#!/usr/bin/env python3
"""Regenerates MANIFEST.json from the table below (claimed properties) and properties.jsonl (the rest -> not_applicable)."""
import json, os, sys

ROOT = os.path.dirname(os.path.dirname(os.path.abspath(__file__)))
sys.path.insert(0, os.path.join(ROOT, 'tools'))

VRT_NOTE = ('Trusted base: g++ 12 -fsanitize=thread instrumentation (every atomic and plain access of the harness TU, cocls headers and inlined '
            'libstdc++ calls into our run-time), the vrt scheduler/HB detector/heap oracle in engine/vrt, the std shim in engine/shim. '
            'Interleavings are explored under sequential consistency up to the stated deviation bound; conflicting plain accesses are judged '
            'by C++20 happens-before (release sequences, fences). compare_exchange_weak / condition variables do not fail or wake spuriously. '
            'Harness sizes (threads, operations) are the bound of the universal quantifier.')
SEQ_NOTE = ('Trusted base: ASan/UBSan/_GLIBCXX_ASSERTIONS as crash oracles, the reference models written in the harness, the enumeration driver '
            'in engine/seqx. All histories/programs/configurations up to the stated depth are executed on fresh real objects; longer ones are not.')

# property -> (engines, technique, level text, design ref)
CLAIMS = {
    'C01': ('vrt', 'stateless model checking of the implementation (preemption-bounded DFS + HB-prefix cache, unbounded for small harnesses)',
            'Every interleaving (bound 2 quick / 3 thorough; all interleavings for the two-resolver harnesses without waiter) of 1-3 competing resolvers '
            'of every kind with a waiter and the final promise destruction is executed on the real future/promise; exactly-one-winner, payload, '
            'stability, loser arguments, waiter result, value lifetime and heap are checked in each.', '5/C01'),
    'C02': ('vrt', 'stateless model checking of the implementation (preemption-bounded DFS + HB-prefix cache; all interleavings for one waiter)',
            'Every interleaving within the bound of 1-3 waiters of every kind (coroutine, wait, sync, callback awaiter, has_value, poller) against '
            'every resolver kind; before/during/after-resolution subscription arises from the schedule. Exactly-once release, result at release, '
            'no waiter left, no access to a dead awaiter (heap oracle) are checked in each execution.', '5/C02'),
    'C03': ('vrt', 'stateless model checking with a C++20 happens-before race oracle on every explored execution',
            'The threaded harnesses of the other properties are explored with the vector-clock race detector as oracle: no two conflicting plain '
            'accesses (or access vs free) unordered by the synchronises-with edges the code declares, in any explored interleaving. Non-SC '
            'executions themselves are not enumerated; a missing release/acquire is nevertheless caught because HB is judged by the C++ rules.', '5/C03'),
    'C07': ('vrt', 'stateless model checking of the implementation (racy plain accesses promoted to scheduling points, to fixpoint)',
            'K=2..4 contenders of every flavour (co_await, blocking, try_lock) and release style (discarded, destructor, awaited, moved to another '
            'thread), 1-2 rounds: holders<=1 at every point, grants==requests, no resume of a running coroutine, heap clean.', '5/C07'),
    'C08': ('vrt', 'stateless model checking of the implementation (same harness family as C07)',
            'Grant order respects the real-time partial order of requests, every request is granted (else deadlock report with schedule), the '
            'mutex is lockable again after all releases, try_lock never blocks.', '5/C08'),
}


def main():
    props = [json.loads(l) for l in open(os.path.join(ROOT, 'properties.jsonl'))]
    extra = {}
    ep = os.path.join(ROOT, 'tools', 'claims_extra.json')
    if os.path.exists(ep):
        extra = json.load(open(ep))
    claims = dict(CLAIMS)
    for k, v in extra.items():
        claims[k] = tuple(v)
    checks, na = [], []
    for p in props:
        pid = p['id']
        if pid in claims:
            eng, tech, text, ref = claims[pid]
            note = VRT_NOTE if eng == 'vrt' else SEQ_NOTE if eng == 'seqx' else VRT_NOTE + ' ' + SEQ_NOTE
            checks.append(dict(
                property_id=pid,
                quick_cmd=f'python3 tools/check.py {pid} --tier quick',
                thorough_cmd=f'python3 tools/check.py {pid} --tier thorough',
                evidence_file=f'/verif/evidence/{pid}.json',
                replay_cmd_template=f'python3 tools/replay.py {{path}}',
                engine=eng,
                level_claimed=dict(category='model_checking', text=text, design_ref=f'DESIGN.md section {ref}'),
                level_note=note,
                technique=tech))
        else:
            na.append(dict(property_id=pid, reason='check under construction in this round; not claimed until its harness is committed and green'))
    m = dict(
        version=1,
        setup_cmd='make -s -C /verif/engine -j16',
        hooks=dict(
            guard='COCLS_VERIF',
            enable='no source hooks in /repo: harness TUs are compiled with -DCOCLS_VERIF -include engine/shim/vstd.h against /repo/src headers '
                   '(vrt: -fsanitize=thread instrumentation linked with engine/vrt instead of libtsan; seqx: -fsanitize=address,undefined)',
            baseline_off_cmd='/verif/tools/repo_tests.sh /repo',
            source_commits=[],
            add_only=True),
        engines=[
            dict(name='vrt', path='engine/vrt', serves_properties=[c['property_id'] for c in checks if 'vrt' in c['engine']],
                 kind_free_text='controlled-concurrency stateless model checker on the real code: own TSan-ABI run-time, serialising scheduler, '
                                'deviation-bounded DFS with HB-prefix cache, C++20 happens-before race detector, heap oracle'),
            dict(name='seqx', path='engine/seqx', serves_properties=[c['property_id'] for c in checks if 'seqx' in c['engine']],
                 kind_free_text='exhaustive enumeration of operation histories / programs / configurations on real objects against reference models, '
                                'ASan+UBSan as crash oracles')],
        checks=checks,
        not_applicable=na,
        notes='All checks: python3 tools/check.py <ID> --tier quick|thorough. Known findings: known_findings.json. Design: DESIGN.md.')
    json.dump(m, open(os.path.join(ROOT, 'MANIFEST.json'), 'w'), indent=1)
    print('claimed', len(checks), 'not_applicable', len(na))


if __name__ == '__main__':
    main()
