#!/usr/bin/env python3
"""Regenerates MANIFEST.json from the table below (claimed properties) and properties.jsonl (the rest -> not_applicable)."""
import json, os, sys

ROOT = os.path.dirname(os.path.dirname(os.path.abspath(__file__)))
sys.path.insert(0, os.path.join(ROOT, 'tools'))

VRT_NOTE = ('Trusted base: g++ 12 -fsanitize=thread instrumentation (every atomic and plain access of the harness TU, cocls headers and inlined '
            'libstdc++ calls into our run-time), the vrt scheduler/HB detector/heap oracle in engine/vrt, the std shim in engine/shim. '
            'Interleavings are explored under sequential consistency up to the stated deviation bound; conflicting plain accesses are judged '
            'by C++20 happens-before (release sequences, fences). compare_exchange_weak / condition variables do not fail or wake spuriously. '
            'Harness sizes (threads, operations) are the bound of the universal quantifier.')
SEQ_NOTE = ('Trusted base: ASan/UBSan/_GLIBCXX_ASSERTIONS as crash oracles, the reference models written in the harness, the enumeration driver '
            'in engine/seqx. All histories/programs/configurations up to the stated depth are executed on fresh real objects; longer ones are not.')

# property -> (engines, technique, level text, design ref)
CLAIMS = {
    'C01': ('vrt', 'stateless model checking of the implementation (preemption-bounded DFS + HB-prefix cache, unbounded for small harnesses)',
            'Every interleaving (bound 2 quick / 3 thorough; all interleavings for the two-resolver harnesses without waiter) of 1-3 competing resolvers '
            'of every kind with a waiter and the final promise destruction is executed on the real future/promise; exactly-one-winner, payload, '
            'stability, loser arguments, waiter result, value lifetime and heap are checked in each.', '5/C01'),
    'C02': ('vrt', 'stateless model checking of the implementation (preemption-bounded DFS + HB-prefix cache; all interleavings for one waiter)',
            'Every interleaving within the bound of 1-3 waiters of every kind (coroutine, wait, sync, callback awaiter, has_value, poller) against '
            'every resolver kind; before/during/after-resolution subscription arises from the schedule. Exactly-once release, result at release, '
            'no waiter left, no access to a dead awaiter (heap oracle) are checked in each execution.', '5/C02'),
    'C03': ('vrt', 'stateless model checking with a C++20 happens-before race oracle on every explored execution',
            'The threaded harnesses of the other properties are explored with the vector-clock race detector as oracle: no two conflicting plain '
            'accesses (or access vs free) unordered by the synchronises-with edges the code declares, in any explored interleaving. Non-SC '
            'executions themselves are not enumerated; a missing release/acquire is nevertheless caught because HB is judged by the C++ rules.', '5/C03'),
    'C07': ('vrt', 'stateless model checking of the implementation (racy plain accesses promoted to scheduling points, to fixpoint)',
            'K=2..4 contenders of every flavour (co_await, blocking, try_lock) and release style (discarded, destructor, awaited, moved to another '
            'thread), 1-2 rounds: holders<=1 at every point, grants==requests, no resume of a running coroutine, heap clean.', '5/C07'),
    'C08': ('vrt', 'stateless model checking of the implementation (same harness family as C07)',
            'Grant order respects the real-time partial order of requests, every request is granted (else deadlock report with schedule), the '
            'mutex is lockable again after all releases, try_lock never blocks.', '5/C08'),
    'C04': ('seqx', 'exhaustive enumeration of the start-mode x completion x type x depth product on the real code, reference outcome per cell',
            'All 600 feasible cells (13 start modes x 4 completion modes x 4 result types x depth 1..3; join() against a suspended chain needs a '
            'second thread) are executed: body-run counters per level, delivery to the bound party, RAII guards on arguments and locals, value '
            'lifetime and frame allocation balance are checked in each.', '5/C04'),
    'C05': ('seqx', 'exhaustive program enumeration; every event checked online against a reference scheduler (bounded model checking of schedules)',
            'Every well-formed program of N scripted coroutines over the step alphabet (N=2 x <=3 steps, N=3 x <=2 steps quick) entered from normal '
            'code and from a coroutine runs on the real library; each start/resume/finish event must be allowed by a reference scheduler that '
            'encodes run-to-suspension, FIFO order, pause round-robin, exactly-once resumption and full drain, leaving open only what the property leaves open.', '5/C05'),
    'C06': ('seqx', 'explicit-state breadth-first search over operation histories on real objects, deduplicated by a canonical key',
            'All reachable canonical states (per slot: exists, count, heap flag, capacity; normal / coroutine mode) with up to 14 (quick) / 40 '
            '(thorough) live handles are visited; after every history plus teardown each handle (a real suspended coroutine) must have been '
            'resumed exactly once (a second resume is a use-after-free under ASan), typed values preserved, allocation balance 0.', '5/C06'),
    'C09': ('seqx', 'exhaustive history enumeration against a reference model (item list + waiter list)',
            'Every history over push/pop/unblock_pop/reap/destroy up to depth 7 (quick) / 9 for queue<int>, queue<MoveOnly>, queue<void>: after '
            'every step the readiness, value or exception of every pop future, push results and size()/empty() equal the model; destruction '
            'cancels waiting pops; allocation balance. Threaded part not yet built (see level_note).', '5/C09'),
    'C10': ('seqx', 'exhaustive history enumeration against a reference model (bounded FIFO + blocked producers + waiting consumers)',
            'Every history over push/pop/unblock_push for limits 1..4 up to depth 8 (quick) / 11: readiness and result of every push and pop '
            'future, item order, withdrawal by unblock_push, size()/empty() compared with the model after every step. Threaded part not yet built.', '5/C10'),
    'C11': ('vrt', 'stateless model checking of the implementation (preemption-bounded DFS + HB-prefix cache)',
            'Pools of 1-3 workers, 1-2 submissions of every kind (co_await pool, run(fn) small/large closure, run_detached, co_await pool(future), '
            'run(async), resume(suspend_point)), stop()/destructor/self-stop at every schedule-chosen moment: each job ran once on a worker or was '
            'cancelled observably once, stop() returns in every schedule, closures freed, heap clean. Lost resume() jobs are a recorded known finding.', '5/C11'),
    'C12': ('seqx', 'exhaustive history / script enumeration under virtual time against a multiset model',
            'Manual mode: every history over schedule/cancel/cancel(e)/remove/get_expired (15 operations, depth 5 full alphabet, 6-8 reduced) against '
            'a multiset of pending sleeps. Single-thread start(awaitable) mode under virtual time: every script of 1-3 sleepers (durations, second '
            'sleep, cancel of any sleeper at any time, interval() with stop token): never early, not late while idle, deadline order, exactly once, '
            'cancel result, destruction cancels the rest. Thread / pool mode not yet built.', '5/C12'),
    'C13': ('seqx', 'exhaustive enumeration of body scripts x consumer access-style sequences',
            'Every body script over {yield, await ready, await pending, throw} (<=3 quick / 4) x every sequence of access styles (next/value, '
            'co_await next, call+wait, call+co_await has_value, range-for, early destroy; <=4 / 5), with and without argument: observed '
            'sequence == yielded sequence then one end indication, exception at its position, arguments, locals destroyed once. Blocking styles against '
            'pending awaits (another thread completes them) not yet built.', '5/C13'),
    'C14': ('seqx', 'exhaustive enumeration of source multisets x consumer styles x stop points',
            'Every multiset of 0..3 (quick) / 0..5 scripted sources (empty, finite 1-3, infinite, throwing at 0/1, asynchronous) x consumer style pairs x '
            'argument / no argument x stop-after: multiset union, per-source order, ends iff all ended, exception reported without losing values, '
            'argument routing, source locals and allocations released.', '5/C14'),
    'C15': ('seqx', 'exhaustive history enumeration against a reference model (set of waiting listeners)',
            'Every history of depth 5 (quick) / 6 over listener arrival/leave (3 listeners), connect callback (true/false), collector calls by '
            'value/rvalue/lvalue, copy/drop of collector and signal handles, hook_up: each call reaches exactly the waiting set once each; '
            'last handle gone resumes every waiter with await_canceled_exception and deletes callbacks; awaiting a disconnected emitter fails at once.', '5/C15'),
    'C16': ('vrt+seqx', 'exhaustive history enumeration against a cursor model + stateless model checking of publisher/subscriber threads',
            'seqx: every history (depth 5-6 quick, 7-8 thorough) over publish/batch/subscribe(recent, at, copy)/await/next_ready/kick/leave/close for '
            '(min,max) in 1..3 (1..5) and unlimited x three modes against the reference of DESIGN 5/C16. vrt: publisher thread against coroutine, '
            'blocking and polling subscribers, bound 2/3.', '5/C16'),
    'C17': ('vrt', 'stateless model checking of the implementation (bound 2/3, all interleavings for one handle thread)',
            'Resolver thread (value/exception/drop) against 1-2 threads running scripts over copy/await/wait/poll/drop with the main handle dropped '
            'early or late, for every constructor (promise function, future function pending/ready, default + get_promise): same result for all, '
            'each awaiter once, stored value destroyed exactly once after resolution (Counted balance, heap oracle).', '5/C17'),
    'C18': ('seqx', 'exhaustive configuration product on the real code',
            'adapter (callback_await, callback_await_alloc, make_promise, make_promise+storage, discard, six future_conv shapes, call_fn_future_awaiter) '
            'x outcome (value, exception, drop) x timing (before / after registration on the same thread) x converter returns/throws: completion count, '
            'outcome, outer future content, helper freed once. Concurrent resolution on another thread not yet built.', '5/C18'),
    'C19': ('seqx', 'exhaustive history enumeration per storage policy with a spy storage',
            'Every history of depth 5 (quick) / 7 over create(S/M/L) and finish(i) within each policy discipline for 8 policies: blocks disjoint among '
            'live frames (spy + canaries), dealloc matches alloc, heap fallback freed once, no allocation after warm-up, extra object constructed / usable / '
            'destroyed once. Two-thread part for reusable_storage_mtsafe not yet built.', '5/C19'),
    'C20': ('seqx', 'exhaustive enumeration of program families inside a measured region (global operator new counter)',
            'future/promise with 0-3 coroutine-type waiters, callback awaiter, every outcome and three value types; mutex try/blocking paths; suspend '
            'points with 0-4 handles and four disposals; synchronous generator stepping in three styles; every scheduling program of N=2 x <=3 / N=3 x <=2 '
            'steps over pause/resolve/await/lock/release with frames in reusable storage: operator new count in the region is 0.', '5/C20'),
}


def main():
    props = [json.loads(l) for l in open(os.path.join(ROOT, 'properties.jsonl'))]
    extra = {}
    ep = os.path.join(ROOT, 'tools', 'claims_extra.json')
    if os.path.exists(ep):
        extra = json.load(open(ep))
    claims = dict(CLAIMS)
    for k, v in extra.items():
        claims[k] = tuple(v)
    checks, na = [], []
    for p in props:
        pid = p['id']
        if pid in claims:
            eng, tech, text, ref = claims[pid]
            note = VRT_NOTE if eng == 'vrt' else SEQ_NOTE if eng == 'seqx' else VRT_NOTE + ' ' + SEQ_NOTE
            checks.append(dict(
                property_id=pid,
                quick_cmd=f'python3 tools/check.py {pid} --tier quick',
                thorough_cmd=f'python3 tools/check.py {pid} --tier thorough',
                evidence_file=f'/verif/evidence/{pid}.json',
                replay_cmd_template=f'python3 tools/replay.py {{path}}',
                engine=eng,
                level_claimed=dict(category='model_checking', text=text, design_ref=f'DESIGN.md section {ref}'),
                level_note=note,
                technique=tech))
        else:
            na.append(dict(property_id=pid, reason='check under construction in this round; not claimed until its harness is committed and green'))
    m = dict(
        version=1,
        setup_cmd='make -s -C /verif/engine -j16',
        hooks=dict(
            guard='COCLS_VERIF',
            enable='no source hooks in /repo: harness TUs are compiled with -DCOCLS_VERIF -include engine/shim/vstd.h against /repo/src headers '
                   '(vrt: -fsanitize=thread instrumentation linked with engine/vrt instead of libtsan; seqx: -fsanitize=address,undefined)',
            baseline_off_cmd='/verif/tools/repo_tests.sh /repo',
            source_commits=[],
            add_only=True),
        engines=[
            dict(name='vrt', path='engine/vrt', serves_properties=[c['property_id'] for c in checks if 'vrt' in c['engine']],
                 kind_free_text='controlled-concurrency stateless model checker on the real code: own TSan-ABI run-time, serialising scheduler, '
                                'deviation-bounded DFS with HB-prefix cache, C++20 happens-before race detector, heap oracle'),
            dict(name='seqx', path='engine/seqx', serves_properties=[c['property_id'] for c in checks if 'seqx' in c['engine']],
                 kind_free_text='exhaustive enumeration of operation histories / programs / configurations on real objects against reference models, '
                                'ASan+UBSan as crash oracles')],
        checks=checks,
        not_applicable=na,
        notes='All checks: python3 tools/check.py <ID> --tier quick|thorough. Known findings: known_findings.json. Design: DESIGN.md.')
    json.dump(m, open(os.path.join(ROOT, 'MANIFEST.json'), 'w'), indent=1)
    print('claimed', len(checks), 'not_applicable', len(na))


if __name__ == '__main__':
    main()
